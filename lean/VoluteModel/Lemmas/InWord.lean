import VoluteModel.Model.Ops
import VoluteModel.Model.Decomp
import VoluteModel.Lemmas.TableFacts
import VoluteModel.Lemmas.NatBits

/-!
# In-word kernels (variable index <= 5): bit-level meaning

Every in-word kernel of operations.rs / decomposition.rs is a sum (or an or) of two of the
five masked-shift terms `A..E` below.  Their bits follow from the kernel-decided facts about
`VAR_MASK` (`F1`, `F2`, `F3`), the sums are disjoint so `+` is `|||`.
-/

namespace VoluteModel

section terms
variable (i : Nat) (hi : i < 6) (t : W) (k : Nat) (hk : k < 64)
include hi hk

/-- `(t & m1) >> 2^i` : bits with x_i = 0 receive the bit with x_i = 1 -/
theorem termA : ((t &&& varMask i) >>> (2^i)).getLsbD k = (!k.testBit i && t.getLsbD (k ^^^ 2^i)) := by
  have h1 := F1 ⟨i, hi⟩ ⟨k, hk⟩
  have h3 := F3 ⟨i, hi⟩ ⟨k, hk⟩
  simp only [] at h1 h3
  simp only [BitVec.getLsbD_ushiftRight, BitVec.getLsbD_and, h1]
  cases hb : k.testBit i
  · rw [(h3.1 hb).1]; simp
  · simp

/-- `(t & m0) << 2^i` : bits with x_i = 1 receive the bit with x_i = 0 -/
theorem termB : ((t &&& ~~~ varMask i) <<< (2^i)).getLsbD k = (k.testBit i && t.getLsbD (k ^^^ 2^i)) := by
  have h2 := F2 ⟨i, hi⟩ ⟨k, hk⟩
  have h3 := F3 ⟨i, hi⟩ ⟨k, hk⟩
  simp only [] at h2 h3
  simp only [BitVec.getLsbD_shiftLeft, BitVec.getLsbD_and, BitVec.getLsbD_not, hk, decide_true, Bool.true_and]
  cases hb : k.testBit i
  · rw [hb] at h2
    cases hlt : decide (k < 2^i)
    · simp only [hlt, Bool.not_false, Bool.true_and] at h2 ⊢
      have h2' : (varMask i).getLsbD (k - 2^i) = true := by simpa using h2
      simp [h2']
    · simp
  · rw [hb] at h2
    have hh := h3.2 hb
    have hlt : decide (k < 2^i) = false := by simp; exact hh.2
    simp only [hlt, Bool.not_false, Bool.true_and] at h2 ⊢
    have h2' : (varMask i).getLsbD (k - 2^i) = false := by simpa using h2
    have hk' : k - 2^i < 64 := Nat.lt_of_le_of_lt (Nat.sub_le _ _) hk
    rw [hh.1] at h2' hk' ⊢
    rw [h2']
    simp [hk']

/-- `t & m1` -/
theorem termC : (t &&& varMask i).getLsbD k = (k.testBit i && t.getLsbD k) := by
  have := varMask_bit ⟨i, hi⟩ ⟨k, hk⟩
  simp only [] at this
  simp only [BitVec.getLsbD_and, this, Bool.and_comm]

/-- `t & m0` -/
theorem termD : (t &&& ~~~ varMask i).getLsbD k = (!k.testBit i && t.getLsbD k) := by
  have := varMask_bit ⟨i, hi⟩ ⟨k, hk⟩
  simp only [] at this
  simp only [BitVec.getLsbD_and, BitVec.getLsbD_not, this, hk, decide_true, Bool.true_and, Bool.and_comm]

/-- `((t & m1) >> 2^i) << 2^i` -/
theorem termE : (((t &&& varMask i) >>> (2^i)) <<< (2^i)).getLsbD k = (k.testBit i && t.getLsbD k) := by
  have h3 := F3 ⟨i, hi⟩ ⟨k, hk⟩
  simp only [] at h3
  rw [BitVec.getLsbD_shiftLeft]
  simp only [hk, decide_true, Bool.true_and]
  cases hb : k.testBit i
  · cases hlt : decide (k < 2^i)
    · have hge : 2^i ≤ k := by simpa using hlt
      have hk' : k - 2^i < 64 := Nat.lt_of_le_of_lt (Nat.sub_le _ _) hk
      rw [termA i hi t (k - 2^i) hk']
      -- k has bit i clear and k >= 2^i, so k - 2^i has bit i set
      have hset : (k - 2^i).testBit i = true := by
        cases h' : (k - 2^i).testBit i
        · have := xor_two_pow_of_clear (k - 2^i) i h'
          have e : k - 2^i + 2^i = k := by omega
          rw [e] at this
          have hb2 : k.testBit i = true := by
            rw [← this, Nat.testBit_xor, h', Nat.testBit_two_pow_self]; rfl
          rw [hb] at hb2; cases hb2
        · rfl
      simp [hset]
    · simp
  · have hh := h3.2 hb
    have hlt : decide (k < 2^i) = false := by simp; exact hh.2
    have hk' : k - 2^i < 64 := Nat.lt_of_le_of_lt (Nat.sub_le _ _) hk
    rw [hlt, termA i hi t (k - 2^i) hk']
    have hclr : (k - 2^i).testBit i = false := by
      rw [hh.1, testBit_xor_two_pow, hb]; simp
    have e : (k - 2^i) ^^^ 2^i = k := by
      rw [hh.1, Nat.xor_assoc, Nat.xor_self, Nat.xor_zero]
    simp [hclr, e]

end terms

/-- two words whose set bits are separated by a Boolean guard do not overlap -/
theorem disjoint_of_guard (x y : W) (c : Nat → Bool) (p q : Nat → Bool)
    (hx : ∀ k, k < 64 → x.getLsbD k = (c k && p k)) (hy : ∀ k, k < 64 → y.getLsbD k = (!c k && q k)) :
    x &&& y = 0#64 := by
  apply BitVec.eq_of_getLsbD_eq
  intro k hk
  rw [BitVec.getLsbD_and, hx k hk, hy k hk]
  cases c k <;> simp

theorem disjoint_of_guard' (x y : W) (c : Nat → Bool) (p q : Nat → Bool)
    (hx : ∀ k, k < 64 → x.getLsbD k = (!c k && p k)) (hy : ∀ k, k < 64 → y.getLsbD k = (c k && q k)) :
    x &&& y = 0#64 := by
  rw [BitVec.and_comm]; exact disjoint_of_guard y x c q p hy hx

theorem shift_one (i : Nat) : (1 <<< i : Nat) = 2 ^ i := by simp [Nat.shiftLeft_eq]

/-- `flip_inplace`, in-word -/
theorem flipWord_bit (i : Nat) (hi : i < 6) (t : W) (k : Nat) (hk : k < 64) :
    (flipWord i t).getLsbD k = t.getLsbD (k ^^^ 2^i) := by
  unfold flipWord
  simp only [shift_one]
  have d := disjoint_of_guard' _ _ (fun k => k.testBit i) _ _
    (fun k hk => termA i hi t k hk) (fun k hk => termB i hi t k hk)
  rw [BitVec.add_eq_or_of_and_eq_zero _ _ d, BitVec.getLsbD_or, termA i hi t k hk, termB i hi t k hk]
  cases k.testBit i <;> simp

/-- `cofactor0_inplace`, in-word: every position reads the position with x_i cleared -/
theorem cof0Word_bit (i : Nat) (hi : i < 6) (t : W) (k : Nat) (hk : k < 64) :
    (cof0Word i t).getLsbD k = t.getLsbD (if k.testBit i then k ^^^ 2^i else k) := by
  unfold cof0Word
  simp only [shift_one]
  have d := disjoint_of_guard' _ _ (fun k => k.testBit i) _ _
    (fun k hk => termD i hi t k hk) (fun k hk => termB i hi t k hk)
  rw [BitVec.add_eq_or_of_and_eq_zero _ _ d, BitVec.getLsbD_or, termD i hi t k hk, termB i hi t k hk]
  cases k.testBit i <;> simp

/-- `cofactor1_inplace`, in-word: every position reads the position with x_i set -/
theorem cof1Word_bit (i : Nat) (hi : i < 6) (t : W) (k : Nat) (hk : k < 64) :
    (cof1Word i t).getLsbD k = t.getLsbD (if k.testBit i then k else k ^^^ 2^i) := by
  unfold cof1Word
  simp only [shift_one]
  have d := disjoint_of_guard' _ _ (fun k => k.testBit i) _ _
    (fun k hk => termA i hi t k hk) (fun k hk => termC i hi t k hk)
  rw [BitVec.add_eq_or_of_and_eq_zero _ _ d, BitVec.getLsbD_or, termA i hi t k hk, termC i hi t k hk]
  cases k.testBit i <;> simp

/-- the word formula of `from_cofactors_inplace` -/
theorem fromCofWord_bit (i : Nat) (hi : i < 6) (t0 t1 : W) (k : Nat) (hk : k < 64) :
    ((t1 &&& varMask i) + (t0 &&& ~~~ varMask i)).getLsbD k = (if k.testBit i then t1.getLsbD k else t0.getLsbD k) := by
  have d := disjoint_of_guard _ _ (fun k => k.testBit i) _ _
    (fun k hk => termC i hi t1 k hk) (fun k hk => termD i hi t0 k hk)
  rw [BitVec.add_eq_or_of_and_eq_zero _ _ d, BitVec.getLsbD_or, termC i hi t1 k hk, termD i hi t0 k hk]
  cases k.testBit i <;> simp

/-- cofactor words of `input_property_helper` -/
theorem helperC1_bit (i : Nat) (hi : i < 6) (t : W) (k : Nat) (hk : k < 64) :
    (helperC1 i t).getLsbD k = t.getLsbD (if k.testBit i then k else k ^^^ 2^i) := by
  unfold helperC1
  simp only [shift_one]
  rw [BitVec.getLsbD_or, termA i hi t k hk, termC i hi t k hk]
  cases k.testBit i <;> simp

theorem helperC0_bit (i : Nat) (hi : i < 6) (t : W) (k : Nat) (hk : k < 64) :
    (helperC0 i t).getLsbD k = t.getLsbD (if k.testBit i then k ^^^ 2^i else k) := by
  unfold helperC0
  simp only [shift_one]
  rw [BitVec.getLsbD_or, termB i hi t k hk, termD i hi t k hk]
  cases k.testBit i <;> simp

/-- `swap_inplace`, regime `j <= 5 < i`: the two new words -/
theorem swapMixedPair_bit (j : Nat) (hj : j < 6) (t0 t1 : W) (k : Nat) (hk : k < 64) :
    (swapMixedPair j t0 t1).1.getLsbD k = (if k.testBit j then t1.getLsbD (k ^^^ 2^j) else t0.getLsbD k) ∧
    (swapMixedPair j t0 t1).2.getLsbD k = (if k.testBit j then t1.getLsbD k else t0.getLsbD (k ^^^ 2^j)) := by
  unfold swapMixedPair
  simp only [shift_one]
  constructor
  · have d := disjoint_of_guard' _ _ (fun k => k.testBit j) _ _
      (fun k hk => termD j hj t0 k hk) (fun k hk => termB j hj t1 k hk)
    rw [BitVec.add_eq_or_of_and_eq_zero _ _ d, BitVec.getLsbD_or, termD j hj t0 k hk, termB j hj t1 k hk]
    cases k.testBit j <;> simp
  · have d := disjoint_of_guard' _ _ (fun k => k.testBit j) _ _
      (fun k hk => termA j hj t0 k hk) (fun k hk => termE j hj t1 k hk)
    rw [BitVec.add_eq_or_of_and_eq_zero _ _ d, BitVec.getLsbD_or, termA j hj t0 k hk, termE j hj t1 k hk]
    cases k.testBit j <;> simp

/-- `swap_inplace`, regime `i <= 5` (delta swap) -/
theorem swapWord_bit (i j : Nat) (hi : i < 6) (hji : j < i) (t : W) (k : Nat) (hk' : k < 64) :
    (swapWord i j t).getLsbD k = t.getLsbD (exch i j k) := by
  have hj : j < 6 := by omega
  have hml := fun (q : Fin 64) => S_ml ⟨i, hi⟩ ⟨j, hj⟩ q hji
  have hmr := fun (q : Fin 64) => S_mr ⟨i, hi⟩ ⟨j, hj⟩ q hji
  have hidx' := fun (q : Fin 64) => S_idx ⟨i, hi⟩ ⟨j, hj⟩ q hji
  simp only [] at hml hmr hidx'
  unfold swapWord
  simp only [Nat.shiftLeft_eq, Nat.one_mul]
  generalize hs : 2^i - 2^j = s at *
  generalize hML : swapMask i j = ml at *
  have bA : ∀ q : Fin 64, (t &&& ~~~ml &&& ~~~(ml <<< s)).getLsbD q.val =
      (t.getLsbD q.val && !(q.val.testBit j && !q.val.testBit i) && !(q.val.testBit i && !q.val.testBit j)) := by
    intro q
    have h2 := hmr q
    simp only [BitVec.getLsbD_and, BitVec.getLsbD_not, q.isLt, decide_true, Bool.true_and, hml q, h2]
  have bB : ∀ q : Fin 64, ((t &&& ml) <<< s).getLsbD q.val =
      ((q.val.testBit i && !q.val.testBit j) && t.getLsbD (q.val - s)) := by
    intro q
    have h2 := hmr q
    simp only [BitVec.getLsbD_shiftLeft, BitVec.getLsbD_and] at h2 ⊢
    rw [← h2]
    cases t.getLsbD (q.val - s) <;> simp
  have bC : ∀ q : Fin 64, ((t &&& (ml <<< s)) >>> s).getLsbD q.val =
      ((q.val.testBit j && !q.val.testBit i) && t.getLsbD (s + q.val)) := by
    intro q
    have h1 := hml q
    have hi' := (hidx' q).2.1
    simp only [BitVec.getLsbD_ushiftRight, BitVec.getLsbD_and, BitVec.getLsbD_shiftLeft, Nat.add_sub_cancel_left]
    rw [h1]
    cases hb : (q.val.testBit j && !q.val.testBit i)
    · simp
    · have := (hi' hb).1
      simp [this]
  have dAB : (t &&& ~~~ml &&& ~~~(ml <<< s)) &&& ((t &&& ml) <<< s) = 0#64 := by
    apply BitVec.eq_of_getLsbD_eq; intro q hq
    have a := bA ⟨q, hq⟩; have b := bB ⟨q, hq⟩
    rw [BitVec.getLsbD_and, a, b]
    simp only [BitVec.getLsbD_zero]
    cases q.testBit i <;> cases q.testBit j <;> simp
  rw [BitVec.add_eq_or_of_and_eq_zero _ _ dAB]
  have dABC : ((t &&& ~~~ml &&& ~~~(ml <<< s)) ||| ((t &&& ml) <<< s)) &&& ((t &&& (ml <<< s)) >>> s) = 0#64 := by
    apply BitVec.eq_of_getLsbD_eq; intro q hq
    have a := bA ⟨q, hq⟩; have b := bB ⟨q, hq⟩; have c := bC ⟨q, hq⟩
    rw [BitVec.getLsbD_and, BitVec.getLsbD_or, a, b, c]
    simp only [BitVec.getLsbD_zero]
    cases q.testBit i <;> cases q.testBit j <;> simp
  rw [BitVec.add_eq_or_of_and_eq_zero _ _ dABC]
  rw [BitVec.getLsbD_or, BitVec.getLsbD_or, bA ⟨k, hk'⟩, bB ⟨k, hk'⟩, bC ⟨k, hk'⟩]
  obtain ⟨h1, h2, h3⟩ := hidx' ⟨k, hk'⟩
  simp only [] at h1 h2 h3 ⊢
  cases hbi : k.testBit i <;> cases hbj : k.testBit j
  · have := h3 (by rw [hbi, hbj]); simp [this]
  · have := h2 (by simp [hbi, hbj]); simp [this.2]
  · have := h1 (by simp [hbi, hbj]); simp [this.2]
  · have := h3 (by rw [hbi, hbj]); simp [this]

end VoluteModel

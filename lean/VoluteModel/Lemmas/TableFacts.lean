import VoluteModel.Model.Basic

/-!
# T1: characterisation of the constant tables regenerated from /repo/src

Each fact is a kernel computation (`decide`) over the table *as it is in the source now*:
changing one entry of a table in the source breaks the corresponding theorem.
-/

namespace VoluteModel
open Gen

theorem VAR_MASK_size : VAR_MASK.size = 6 := by decide
theorem NUM_VARS_MASK_size : NUM_VARS_MASK.size = 7 := by decide
theorem COUNT_MASKS_size : COUNT_MASKS.size = 7 := by decide
theorem SWAP_INPUT_MASKS_size : SWAP_INPUT_MASKS.size = 6 ∧ ∀ i : Fin 6, (SWAP_INPUT_MASKS[i.val]!).size = 6 := by decide

/-- `VAR_MASK[i]` has bit `k` set iff bit `i` of `k` is set -/
theorem varMask_bit : ∀ i : Fin 6, ∀ k : Fin 64, (varMask i.val).getLsbD k.val = k.val.testBit i.val := by
  decide

/-- `NUM_VARS_MASK[n]` has exactly the bits below `2^n` -/
theorem numVarsMaskTab_bit : ∀ n : Fin 7, ∀ k : Fin 64,
    (NUM_VARS_MASK[n.val]!).getLsbD k.val = decide (k.val < 2 ^ n.val) := by
  decide

theorem F1 : ∀ i : Fin 6, ∀ k : Fin 64, (varMask i.val).getLsbD (2^i.val + k.val) = !(k.val.testBit i.val) := by decide
theorem F2 : ∀ i : Fin 6, ∀ k : Fin 64,
   (!decide (k.val < 2^i.val) && !(varMask i.val).getLsbD (k.val - 2^i.val)) = k.val.testBit i.val := by decide
theorem F3 : ∀ i : Fin 6, ∀ k : Fin 64,
   (k.val.testBit i.val = false → 2^i.val + k.val = k.val ^^^ 2^i.val ∧ 2^i.val + k.val < 64) ∧
   (k.val.testBit i.val = true → k.val - 2^i.val = k.val ^^^ 2^i.val ∧ 2^i.val ≤ k.val) := by decide


/-- `SWAP_INPUT_MASKS[i][j]` (j < i): bits with x_j set and x_i clear -/
theorem S_ml : ∀ i : Fin 6, ∀ j : Fin 6, ∀ k : Fin 64, j.val < i.val →
    (swapMask i.val j.val).getLsbD k.val = (k.val.testBit j.val && !k.val.testBit i.val) := by decide +kernel

theorem S_mr : ∀ i : Fin 6, ∀ j : Fin 6, ∀ k : Fin 64, j.val < i.val →
    (swapMask i.val j.val <<< (2^i.val - 2^j.val)).getLsbD k.val = (k.val.testBit i.val && !k.val.testBit j.val) := by decide +kernel

/-- exchange bits `i` and `j` of `k` -/
def exch (i j k : Nat) : Nat :=
  if k.testBit i = k.testBit j then k else k ^^^ (2^i ^^^ 2^j)

theorem S_idx : ∀ i : Fin 6, ∀ j : Fin 6, ∀ k : Fin 64, j.val < i.val →
    ((k.val.testBit i.val && !k.val.testBit j.val) = true →
        2^i.val - 2^j.val ≤ k.val ∧ k.val - (2^i.val - 2^j.val) = exch i.val j.val k.val) ∧
    ((k.val.testBit j.val && !k.val.testBit i.val) = true →
        (2^i.val - 2^j.val) + k.val < 64 ∧ (2^i.val - 2^j.val) + k.val = exch i.val j.val k.val) ∧
    (k.val.testBit i.val = k.val.testBit j.val → exch i.val j.val k.val = k.val) := by decide +kernel

/-- `COUNT_MASKS[c]` has bit `b` set iff `b` has exactly `c` ones -/
theorem countMask_bit : ∀ c : Fin 7, ∀ b : Fin 64, (COUNT_MASKS[c.val]!).getLsbD b.val = decide (popc 6 b.val = c.val) := by
  decide +kernel

end VoluteModel

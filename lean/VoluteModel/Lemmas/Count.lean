import Mathlib.Data.List.Permutation
import VoluteModel.Lemmas.SeqCore

/-!
# Counting lemmas (the only file that imports a Mathlib module)

A duplicate-free list of n! permutations of `range n` contains every permutation of `range n`;
a duplicate-free list of N numbers below N contains every number below N.
-/

namespace VoluteModel

theorem perms_covered (n : Nat) (V : List (List Nat)) (hnd : V.Nodup)
    (hp : ∀ v ∈ V, v.Perm (List.range n)) (hlen : n.factorial ≤ V.length) :
    ∀ σ : List Nat, σ.Perm (List.range n) → σ ∈ V := by
  intro σ hσ
  have hsub : V ⊆ (List.range n).permutations := fun v hv => List.mem_permutations.mpr (hp v hv)
  have hsp := List.subperm_of_subset hnd hsub
  have hperm := hsp.perm_of_length_le (by rw [List.length_permutations, List.length_range]; exact hlen)
  exact hperm.mem_iff.mpr (List.mem_permutations.mpr hσ)

theorem range_covered (N : Nat) (V : List Nat) (hnd : V.Nodup) (hlt : ∀ v ∈ V, v < N) (hlen : N ≤ V.length) :
    ∀ x, x < N → x ∈ V := by
  intro x hx
  have hsub : V ⊆ List.range N := fun v hv => List.mem_range.mpr (hlt v hv)
  have hsp := List.subperm_of_subset hnd hsub
  have hperm := hsp.perm_of_length_le (by rw [List.length_range]; exact hlen)
  exact hperm.mem_iff.mpr (List.mem_range.mpr hx)

theorem factL_eq (n : Nat) : factL n = n.factorial := by
  induction n with
  | zero => rfl
  | succ n ih => simp only [factL, Nat.factorial_succ, ih]

end VoluteModel

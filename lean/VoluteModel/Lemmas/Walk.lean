/-!
# Generic exhaustive walk keeping the minimum (the loop of `*_canonization_ind`)
-/

namespace VoluteModel

variable {σ α : Type}

/-- the loop of `*_canonization_ind`: apply a step, compare with the best so far (strict), remember index -/
def walkAux (step : σ → α → σ) (lt : σ → σ → Bool) : σ → σ → Nat → Nat → List α → σ × Nat
  | _, best, bi, _, [] => (best, bi)
  | s, best, bi, ind, x :: xs =>
    let s' := step s x
    if lt s' best then walkAux step lt s' s' ind (ind + 1) xs
    else walkAux step lt s' best bi (ind + 1) xs

def walk (step : σ → α → σ) (lt : σ → σ → Bool) (s0 : σ) (b0 : Nat) (xs : List α) : σ × Nat :=
  walkAux step lt s0 s0 b0 0 xs

/-- state after the first k steps -/
def stateAt (step : σ → α → σ) (s0 : σ) (xs : List α) (k : Nat) : σ := (xs.take k).foldl step s0

theorem stateAt_zero (step : σ → α → σ) (s0 : σ) (xs : List α) : stateAt step s0 xs 0 = s0 := by
  simp [stateAt]

theorem stateAt_cons (step : σ → α → σ) (s0 : σ) (x : α) (xs : List α) (k : Nat) :
    stateAt step s0 (x :: xs) (k+1) = stateAt step (step s0 x) xs k := by
  simp [stateAt]

theorem walkAux_spec (step : σ → α → σ) (lt : σ → σ → Bool)
    (htrans : ∀ a b c, lt a b = true → lt b c = true → lt a c = true)
    (hirr : ∀ a, lt a a = false) :
    ∀ (xs : List α) (s best : σ) (bi ind : Nat),
      (∀ k, 1 ≤ k → k ≤ xs.length → lt (stateAt step s xs k) (walkAux step lt s best bi ind xs).1 = false) ∧
      (lt best (walkAux step lt s best bi ind xs).1 = false) ∧
      (((walkAux step lt s best bi ind xs).1 = best ∧ (walkAux step lt s best bi ind xs).2 = bi) ∨
       (∃ k, 1 ≤ k ∧ k ≤ xs.length ∧ (walkAux step lt s best bi ind xs).2 = ind + (k - 1) ∧
          (walkAux step lt s best bi ind xs).1 = stateAt step s xs k ∧
          lt (walkAux step lt s best bi ind xs).1 best = true)) := by
  intro xs
  induction xs with
  | nil =>
    intro s best bi ind
    refine ⟨?_, hirr best, Or.inl ⟨rfl, rfl⟩⟩
    intro k h1 h2
    simp only [List.length_nil] at h2
    omega
  | cons x xs ih =>
    intro s best bi ind
    simp only [walkAux, List.length_cons]
    by_cases hlt : lt (step s x) best = true
    · simp only [hlt, if_true]
      obtain ⟨h1, h2, h3⟩ := ih (step s x) (step s x) ind (ind + 1)
      generalize walkAux step lt (step s x) (step s x) ind (ind + 1) xs = r at *
      refine ⟨?_, ?_, ?_⟩
      · intro k hk1 hk2
        obtain ⟨k', rfl⟩ : ∃ k', k = k' + 1 := ⟨k - 1, by omega⟩
        rw [stateAt_cons]
        cases k' with
        | zero => rw [stateAt_zero]; exact h2
        | succ k'' => exact h1 (k''+1) (by omega) (by omega)
      · cases hb : lt best r.1 with
        | false => rfl
        | true => have := htrans _ _ _ hlt hb; rw [h2] at this; cases this
      · right
        rcases h3 with ⟨e1, e2⟩ | ⟨k, hk1, hk2, e2, e1, hl⟩
        · exact ⟨1, by omega, by omega, by simp [e2], by rw [e1, stateAt_cons, stateAt_zero], by rw [e1]; exact hlt⟩
        · refine ⟨k + 1, by omega, by omega, by rw [e2]; omega, by rw [e1, stateAt_cons], ?_⟩
          exact htrans _ _ _ hl hlt
    · have hlt' : lt (step s x) best = false := by simpa using hlt
      simp only [hlt', Bool.false_eq_true, if_false]
      obtain ⟨h1, h2, h3⟩ := ih (step s x) best bi (ind + 1)
      generalize walkAux step lt (step s x) best bi (ind + 1) xs = r at *
      refine ⟨?_, h2, ?_⟩
      · intro k hk1 hk2
        obtain ⟨k', rfl⟩ : ∃ k', k = k' + 1 := ⟨k - 1, by omega⟩
        rw [stateAt_cons]
        cases k' with
        | zero =>
          rw [stateAt_zero]
          rcases h3 with ⟨e1, _⟩ | ⟨k, _, _, _, _, hl⟩
          · rw [e1]; exact hlt'
          · cases hb : lt (step s x) r.1 with
            | false => rfl
            | true => have := htrans _ _ _ hb hl; rw [hlt'] at this; cases this
        | succ k'' => exact h1 (k''+1) (by omega) (by omega)
      · rcases h3 with ⟨e1, e2⟩ | ⟨k, hk1, hk2, e2, e1, hl⟩
        · exact Or.inl ⟨e1, e2⟩
        · right
          exact ⟨k + 1, by omega, by omega, by rw [e2]; omega, by rw [e1, stateAt_cons], hl⟩

/-- The form used for canonization: closed walk, `b0` = closing index. -/
theorem walk_spec (step : σ → α → σ) (lt : σ → σ → Bool)
    (htrans : ∀ a b c, lt a b = true → lt b c = true → lt a c = true)
    (hirr : ∀ a, lt a a = false)
    (s0 : σ) (xs : List α) (hne : 1 ≤ xs.length)
    (hclosed : stateAt step s0 xs xs.length = s0) :
    let r := walk step lt s0 (xs.length - 1) xs
    (∀ k, k ≤ xs.length → lt (stateAt step s0 xs k) r.1 = false) ∧
    r.2 < xs.length ∧ stateAt step s0 xs (r.2 + 1) = r.1 := by
  intro r
  obtain ⟨h1, h2, h3⟩ := walkAux_spec step lt htrans hirr xs s0 s0 (xs.length - 1) 0
  refine ⟨?_, ?_, ?_⟩
  · intro k hk
    cases k with
    | zero => rw [stateAt_zero]; exact h2
    | succ k' => exact h1 (k'+1) (by omega) hk
  · rcases h3 with ⟨_, e2⟩ | ⟨k, hk1, hk2, e2, _, _⟩
    · show (walkAux step lt s0 s0 (xs.length - 1) 0 xs).2 < _; rw [e2]; omega
    · show (walkAux step lt s0 s0 (xs.length - 1) 0 xs).2 < _; rw [e2]; omega
  · rcases h3 with ⟨e1, e2⟩ | ⟨k, hk1, hk2, e2, e1, _⟩
    · show stateAt step s0 xs ((walkAux step lt s0 s0 (xs.length - 1) 0 xs).2 + 1) = (walkAux step lt s0 s0 (xs.length - 1) 0 xs).1
      rw [e1, e2]
      have : xs.length - 1 + 1 = xs.length := by omega
      rw [this]; exact hclosed
    · show stateAt step s0 xs ((walkAux step lt s0 s0 (xs.length - 1) 0 xs).2 + 1) = (walkAux step lt s0 s0 (xs.length - 1) 0 xs).1
      rw [e1, e2]
      have : 0 + (k - 1) + 1 = k := by omega
      rw [this]

end VoluteModel

import VoluteModel.Model.Ops
import VoluteModel.Lemmas.Bits

/-!
# `cmp` is numeric comparison of the little-endian table value
-/

namespace VoluteModel

theorem lexCmp_append_single (as bs : List W) (h : as.length = bs.length) (a b : W) :
    lexCmp (as ++ [a]) (bs ++ [b]) = match lexCmp as bs with | .eq => compare a.toNat b.toNat | o => o := by
  induction as generalizing bs with
  | nil =>
    cases bs with
    | nil => simp [lexCmp]; cases compare a.toNat b.toNat <;> rfl
    | cons _ _ => simp at h
  | cons x xs ih =>
    cases bs with
    | nil => simp at h
    | cons y ys =>
      simp only [List.cons_append, lexCmp]
      cases hc : compare x.toNat y.toNat
      · rfl
      · exact ih ys (by simpa using h)
      · rfl

theorem toNatLE_lt (as : List W) : toNatLE as < 2^(64 * as.length) := by
  induction as with
  | nil => simp [toNatLE]
  | cons a as ih =>
    have ha := a.isLt
    simp only [toNatLE, List.length_cons]
    have : 2^(64 * (as.length + 1)) = 2^64 * 2^(64 * as.length) := by
      rw [Nat.mul_add, Nat.mul_one, Nat.pow_add, Nat.mul_comm]
    rw [this]
    have h1 : 2^64 * (toNatLE as + 1) ≤ 2^64 * 2^(64 * as.length) := Nat.mul_le_mul_left _ ih
    omega

theorem lexCmp_reverse_eq (a b : List W) (h : a.length = b.length) :
    lexCmp a.reverse b.reverse = compare (toNatLE a) (toNatLE b) := by
  induction a generalizing b with
  | nil => cases b with
    | nil => simp [lexCmp, toNatLE]
    | cons _ _ => simp at h
  | cons x xs ih =>
    cases b with
    | nil => simp at h
    | cons y ys =>
      have hl : xs.length = ys.length := by simpa using h
      rw [List.reverse_cons, List.reverse_cons, lexCmp_append_single _ _ (by simp [hl]), ih ys hl]
      simp only [toNatLE]
      have hx := x.isLt; have hy := y.isLt
      generalize toNatLE xs = A
      generalize toNatLE ys = B
      generalize x.toNat = p at *
      generalize y.toNat = q at *
      rcases Nat.lt_trichotomy A B with hAB | hAB | hAB
      · have : p + 2^64 * A < q + 2^64 * B := by
          have : 2^64 * (A + 1) ≤ 2^64 * B := Nat.mul_le_mul_left _ hAB
          omega
        rw [Nat.compare_eq_lt.mpr hAB, Nat.compare_eq_lt.mpr this]
      · subst hAB
        rw [Nat.compare_eq_eq.mpr rfl]
        simp only []
        rcases Nat.lt_trichotomy p q with h | h | h
        · rw [Nat.compare_eq_lt.mpr h, Nat.compare_eq_lt.mpr (by omega)]
        · subst h; rw [Nat.compare_eq_eq.mpr rfl, Nat.compare_eq_eq.mpr rfl]
        · rw [Nat.compare_eq_gt.mpr h, Nat.compare_eq_gt.mpr (by omega)]
      · have : q + 2^64 * B < p + 2^64 * A := by
          have : 2^64 * (B + 1) ≤ 2^64 * A := Nat.mul_le_mul_left _ hAB
          omega
        rw [Nat.compare_eq_gt.mpr hAB, Nat.compare_eq_gt.mpr this]

/-- Rust `cmp` on equal-length tables is numeric comparison -/
theorem cmpTables_eq (a b : Array W) (h : a.size = b.size) :
    cmpTables a b = compare (toNatLE a.toList) (toNatLE b.toList) := by
  unfold cmpTables
  exact lexCmp_reverse_eq _ _ (by simpa using h)

/-- bit `m` of the number is bit `m` of the table -/
theorem toNatLE_testBit (ws : List W) (m : Nat) :
    (toNatLE ws).testBit m = (ws[m / 64]?.getD 0).getLsbD (m % 64) := by
  induction ws generalizing m with
  | nil => simp [toNatLE]
  | cons a as ih =>
    simp only [toNatLE]
    have e : a.toNat + 2 ^ 64 * toNatLE as = 2 ^ 64 * toNatLE as + a.toNat := by omega
    rw [e, Nat.testBit_two_pow_mul_add _ a.isLt]
    by_cases hm : m < 64
    · have h0 : m / 64 = 0 := by omega
      have h1 : m % 64 = m := by omega
      simp [hm, h0, h1, BitVec.getLsbD]
    · have h0 : m / 64 = (m - 64) / 64 + 1 := by omega
      have h1 : m % 64 = (m - 64) % 64 := by omega
      simp only [hm, if_false]
      rw [ih (m - 64), h0, h1]
      simp

theorem toNatLE_testBit_array (t : Array W) (m : Nat) : (toNatLE t.toList).testBit m = bit t m := by
  rw [toNatLE_testBit]; unfold bit; simp

/-- the value determines the words (fixed length) -/
theorem toNatLE_inj (a b : List W) (h : a.length = b.length) (e : toNatLE a = toNatLE b) : a = b := by
  induction a generalizing b with
  | nil => cases b with
    | nil => rfl
    | cons _ _ => simp at h
  | cons x xs ih =>
    cases b with
    | nil => simp at h
    | cons y ys =>
      simp only [toNatLE] at e
      have hx := x.isLt; have hy := y.isLt
      have h1 : x.toNat = y.toNat := by omega
      have h2 : toNatLE xs = toNatLE ys := by omega
      rw [BitVec.eq_of_toNat_eq h1, ih ys (by simpa using h) h2]

end VoluteModel

import VoluteModel.Lemmas.Pair
import VoluteModel.Lemmas.Bits
import VoluteModel.Lemmas.InWord

/-!
# Cross-word regimes (variable index >= 6) and the word/bit split of assignment indices
-/

namespace VoluteModel

theorem two_pow_div_64 (i : Nat) : 2 ^ i / 64 = if i < 6 then 0 else 2 ^ (i - 6) := by
  by_cases h : i < 6
  · simp only [h, if_true]
    apply Nat.div_eq_of_lt
    have : 2 ^ i < 2 ^ 6 := Nat.pow_lt_pow_right (by omega) h
    omega
  · simp only [h, if_false]
    have : i = 6 + (i - 6) := by omega
    conv => lhs; rw [this, Nat.pow_add]
    exact Nat.mul_div_cancel_left _ (by omega)

theorem two_pow_mod_64 (i : Nat) : 2 ^ i % 64 = if i < 6 then 2 ^ i else 0 := by
  by_cases h : i < 6
  · simp only [h, if_true]
    apply Nat.mod_eq_of_lt
    have : 2 ^ i < 2 ^ 6 := Nat.pow_lt_pow_right (by omega) h
    omega
  · simp only [h, if_false]
    have : i = 6 + (i - 6) := by omega
    conv => lhs; rw [this, Nat.pow_add]
    exact Nat.mul_mod_right _ _

theorem xor_two_pow_div_64 (m i : Nat) :
    (m ^^^ 2 ^ i) / 64 = if i < 6 then m / 64 else m / 64 ^^^ 2 ^ (i - 6) := by
  have e64 : (64 : Nat) = 2 ^ 6 := rfl
  rw [e64, Nat.xor_div_two_pow, ← e64, two_pow_div_64]
  split <;> simp

theorem xor_two_pow_mod_64 (m i : Nat) :
    (m ^^^ 2 ^ i) % 64 = if i < 6 then m % 64 ^^^ 2 ^ i else m % 64 := by
  have e64 : (64 : Nat) = 2 ^ 6 := rfl
  rw [e64, Nat.xor_mod_two_pow, ← e64, two_pow_mod_64]
  split <;> simp

theorem xor_lt_two_pow_of_lt {m i n : Nat} (hm : m < 2 ^ n) (hi : i < n) : m ^^^ 2 ^ i < 2 ^ n :=
  Nat.xor_lt_two_pow hm (Nat.pow_lt_pow_right (by omega) hi)

/-- table of a function of `n >= 6` variables: number of words as a power of two -/
theorem size_pow {n : Nat} {t : Array W} (hs : t.size = tableSize n) (h6 : 6 ≤ n) : t.size = 2 ^ (n - 6) := by
  rw [hs, tableSize_ge6 h6]

/-- word-level meaning of the cross-word flip -/
theorem flipHi_word (t : Array W) (n' j : Nat) (hsz : t.size = 2 ^ n') (hj : j < n') (w : Nat) (hw : w < t.size) :
    (flipInplace t (6 + j))[w]?.getD 0 = t[w ^^^ 2 ^ j]?.getD 0 := by
  unfold flipInplace
  have : ¬ (6 + j ≤ 5) := by omega
  simp only [this, if_false, Nat.add_sub_cancel_left]
  rw [pairLoop_stride j _ t n' hsz hj w hw]
  cases hb : w.testBit j
  · simp [xor_two_pow_of_clear w j hb]
  · simp [(xor_two_pow_of_set w j hb).1]

theorem cof0Hi_word (t : Array W) (n' j : Nat) (hsz : t.size = 2 ^ n') (hj : j < n') (w : Nat) (hw : w < t.size) :
    (cofactor0Inplace t (6 + j))[w]?.getD 0 = t[if w.testBit j then w ^^^ 2 ^ j else w]?.getD 0 := by
  unfold cofactor0Inplace
  have : ¬ (6 + j ≤ 5) := by omega
  simp only [this, if_false, Nat.add_sub_cancel_left]
  rw [pairLoop_stride j _ t n' hsz hj w hw]
  cases hb : w.testBit j
  · simp
  · simp [(xor_two_pow_of_set w j hb).1]

theorem cof1Hi_word (t : Array W) (n' j : Nat) (hsz : t.size = 2 ^ n') (hj : j < n') (w : Nat) (hw : w < t.size) :
    (cofactor1Inplace t (6 + j))[w]?.getD 0 = t[if w.testBit j then w else w ^^^ 2 ^ j]?.getD 0 := by
  unfold cofactor1Inplace
  have : ¬ (6 + j ≤ 5) := by omega
  simp only [this, if_false, Nat.add_sub_cancel_left]
  rw [pairLoop_stride j _ t n' hsz hj w hw]
  cases hb : w.testBit j
  · simp [xor_two_pow_of_clear w j hb]
  · simp

/-- sizes are preserved by all transforms -/
theorem flipInplace_size (t : Array W) (i : Nat) : (flipInplace t i).size = t.size := by
  unfold flipInplace; split
  · simp
  · exact pairLoopF_size _ _ _ _

theorem cofactor0Inplace_size (t : Array W) (i : Nat) : (cofactor0Inplace t i).size = t.size := by
  unfold cofactor0Inplace; split
  · simp
  · exact pairLoopF_size _ _ _ _

theorem cofactor1Inplace_size (t : Array W) (i : Nat) : (cofactor1Inplace t i).size = t.size := by
  unfold cofactor1Inplace; split
  · simp
  · exact pairLoopF_size _ _ _ _

theorem swapInplace_size (t : Array W) (i j : Nat) : (swapInplace t i j).size = t.size := by
  unfold swapInplace
  split
  · rfl
  · dsimp only
    split
    · simp
    · split <;> exact pairLoopF_size _ _ _ _

theorem fromCofactorsInplace_size (t t0 t1 : Array W) (i : Nat) : (fromCofactorsInplace t t0 t1 i).size = t.size := by
  unfold fromCofactorsInplace; split <;> simp

end VoluteModel

namespace VoluteModel

/-- moving a set bit `a` of `k` to a clear position `b` -/
theorem move_bit (k a b : Nat) (ha : k.testBit a = true) (hb : k.testBit b = false) :
    k - 2 ^ a + 2 ^ b = k ^^^ (2 ^ a ^^^ 2 ^ b) ∧ 2 ^ a ≤ k := by
  obtain ⟨e1, hle⟩ := xor_two_pow_of_set k a ha
  have hab : a ≠ b := by intro h; subst h; rw [ha] at hb; cases hb
  have hb1 : (k ^^^ 2 ^ a).testBit b = false := by
    rw [testBit_xor_two_pow, hb]; simp [hab]
  have e2 := xor_two_pow_of_clear (k ^^^ 2 ^ a) b hb1
  refine ⟨?_, hle⟩
  rw [← e1, ← e2, Nat.xor_assoc]

theorem exch_comm (i j k : Nat) : exch i j k = exch j i k := by
  unfold exch
  by_cases h : k.testBit i = k.testBit j
  · simp [h]
  · have h' : ¬ k.testBit j = k.testBit i := fun e => h e.symm
    simp [h, h', Nat.xor_comm]

theorem exch_self (i k : Nat) : exch i i k = k := by simp [exch]

/-- bits of the exchanged index -/
theorem exch_testBit (i j k q : Nat) : (exch i j k).testBit q =
    if q = i then k.testBit j else if q = j then k.testBit i else k.testBit q := by
  unfold exch
  by_cases h : k.testBit i = k.testBit j
  · simp only [h, if_true]
    by_cases h1 : q = i
    · subst h1; simp [h]
    · by_cases h2 : q = j
      · subst h2; simp [h1, h]
      · simp [h1, h2]
  · simp only [h, if_false]
    rw [Nat.testBit_xor, Nat.testBit_xor, Nat.testBit_two_pow, Nat.testBit_two_pow]
    have hij : i ≠ j := by intro e; subst e; exact h rfl
    by_cases h1 : q = i
    · subst h1
      have : ¬ j = q := fun e => hij e.symm
      simp only [decide_true, this, decide_false, Bool.xor_false, if_true]
      cases hb : k.testBit q <;> cases hc : k.testBit j <;> simp_all
    · by_cases h2 : q = j
      · subst h2
        have : ¬ i = q := fun e => h1 e.symm
        simp only [this, decide_false, decide_true, Bool.false_xor, h1, if_false, if_true]
        cases hb : k.testBit q <;> cases hc : k.testBit i <;> simp_all
      · have a1 : ¬ i = q := fun e => h1 e.symm
        have a2 : ¬ j = q := fun e => h2 e.symm
        simp [a1, a2, h1, h2]

theorem exch_lt {i j n k : Nat} (hi : i < n) (hj : j < n) (hk : k < 2 ^ n) : exch i j k < 2 ^ n := by
  unfold exch
  split
  · exact hk
  · apply Nat.xor_lt_two_pow hk
    exact Nat.xor_lt_two_pow (Nat.pow_lt_pow_right (by omega) hi) (Nat.pow_lt_pow_right (by omega) hj)

/-- word / bit split of the exchanged index, both positions in the word -/
theorem exch_split_lo (i j m : Nat) (hi : i < 6) (hj : j < 6) :
    exch i j m / 64 = m / 64 ∧ exch i j m % 64 = exch i j (m % 64) := by
  have hbi : (m % 64).testBit i = m.testBit i := by rw [testBit_of_div_mod m i]; simp [hi]
  have hbj : (m % 64).testBit j = m.testBit j := by rw [testBit_of_div_mod m j]; simp [hj]
  unfold exch
  rw [hbi, hbj]
  split
  · exact ⟨rfl, rfl⟩
  · rw [← Nat.xor_assoc, xor_two_pow_div_64, xor_two_pow_div_64, xor_two_pow_mod_64, xor_two_pow_mod_64]
    simp [hi, hj, Nat.xor_assoc]

/-- one position in the word index, one in the word -/
theorem exch_split_mixed (i' j m : Nat) (hj : j < 6) :
    exch (6 + i') j m / 64 = (if (m / 64).testBit i' = (m % 64).testBit j then m / 64 else m / 64 ^^^ 2 ^ i') ∧
    exch (6 + i') j m % 64 = (if (m / 64).testBit i' = (m % 64).testBit j then m % 64 else m % 64 ^^^ 2 ^ j) := by
  have hbi : m.testBit (6 + i') = (m / 64).testBit i' := by
    rw [testBit_of_div_mod m (6 + i')]
    have : ¬ (6 + i' < 6) := by omega
    simp [this]
  have hbj : m.testBit j = (m % 64).testBit j := by rw [testBit_of_div_mod m j]; simp [hj]
  unfold exch
  rw [hbi, hbj]
  split
  · exact ⟨rfl, rfl⟩
  · rw [← Nat.xor_assoc, xor_two_pow_div_64, xor_two_pow_div_64, xor_two_pow_mod_64, xor_two_pow_mod_64]
    have : ¬ (6 + i' < 6) := by omega
    simp [this, hj]

/-- both positions in the word index -/
theorem exch_split_hi (i' j' m : Nat) :
    exch (6 + i') (6 + j') m / 64 = exch i' j' (m / 64) ∧ exch (6 + i') (6 + j') m % 64 = m % 64 := by
  have hb : ∀ q, m.testBit (6 + q) = (m / 64).testBit q := by
    intro q
    rw [testBit_of_div_mod m (6 + q)]
    have : ¬ (6 + q < 6) := by omega
    simp [this]
  unfold exch
  rw [hb i', hb j']
  split
  · exact ⟨rfl, rfl⟩
  · rw [← Nat.xor_assoc, xor_two_pow_div_64, xor_two_pow_div_64, xor_two_pow_mod_64, xor_two_pow_mod_64]
    have a : ¬ (6 + i' < 6) := by omega
    have b : ¬ (6 + j' < 6) := by omega
    simp [a, b, Nat.xor_assoc]

/-- word-level meaning of the mixed swap regime -/
theorem swapMixed_word (t : Array W) (n' i' j : Nat) (hj : j ≤ 5) (hsz : t.size = 2 ^ n') (hi : i' < n')
    (w : Nat) (hw : w < t.size) :
    (swapInplace t (6 + i') j)[w]?.getD 0 =
      if w.testBit i' = false then (swapMixedPair j (t[w]?.getD 0) (t[w + 2 ^ i']?.getD 0)).1
      else (swapMixedPair j (t[w - 2 ^ i']?.getD 0) (t[w]?.getD 0)).2 := by
  unfold swapInplace
  have h1 : ¬ (6 + i' = j) := by omega
  have h2 : max (6 + i') j = 6 + i' := by omega
  have h3 : min (6 + i') j = j := by omega
  have h4 : ¬ (6 + i' ≤ 5) := by omega
  simp only [h1, if_false, h2, h3, h4, hj, if_true, Nat.add_sub_cancel_left]
  exact pairLoop_stride i' _ t n' hsz hi w hw

/-- word-level meaning of the swap of two word-index variables -/
theorem swapHi_word (t : Array W) (n' i' j' : Nat) (hji : j' < i') (hsz : t.size = 2 ^ n') (hi : i' < n')
    (w : Nat) (hw : w < t.size) :
    (swapInplace t (6 + i') (6 + j'))[w]?.getD 0 = t[exch i' j' w]?.getD 0 := by
  unfold swapInplace
  have h1 : ¬ (6 + i' = 6 + j') := by omega
  have h2 : max (6 + i') (6 + j') = 6 + i' := by omega
  have h3 : min (6 + i') (6 + j') = 6 + j' := by omega
  have h4 : ¬ (6 + i' ≤ 5) := by omega
  have h5 : ¬ (6 + j' ≤ 5) := by omega
  simp only [h1, if_false, h2, h3, h4, h5, Nat.add_sub_cancel_left, Nat.shiftLeft_eq, Nat.one_mul]
  rw [pairLoopF_eq]
  have hpij : 2 ^ j' < 2 ^ i' := Nat.pow_lt_pow_right (by omega) hji
  -- the guard in terms of bits
  have hP : ∀ k, ((2 ^ i' &&& k == 0) && (2 ^ j' &&& k != 0)) = (!k.testBit i' && k.testBit j') := by
    intro k
    rw [two_pow_and_eq_zero]
    have : (2 ^ j' &&& k != 0) = k.testBit j' := by
      have := two_pow_and_eq_zero k j'
      cases hb : k.testBit j' <;> simp_all [bne]
    rw [this]
  have hbits : ∀ k : Nat, (!k.testBit i' && k.testBit j') = true → k.testBit i' = false ∧ k.testBit j' = true := by
    intro k hk; cases h1 : k.testBit i' <;> cases h2 : k.testBit j' <;> simp_all
  have hpartner : ∀ k, ((2 ^ i' &&& k == 0) && (2 ^ j' &&& k != 0)) = true →
      k - 2 ^ j' + 2 ^ i' = k + (2 ^ i' - 2 ^ j') := by
    intro k hk
    rw [hP] at hk
    obtain ⟨_, hb⟩ := hbits k hk
    have := (xor_two_pow_of_set k j' hb).2
    omega
  rw [pairLoopUpTo_congr _ _ (· + (2 ^ i' - 2 ^ j')) _ _ _ hpartner]
  have hmove : ∀ k : Nat, k.testBit i' = false → k.testBit j' = true →
      k + (2 ^ i' - 2 ^ j') = k ^^^ (2 ^ j' ^^^ 2 ^ i') := by
    intro k ha hb
    obtain ⟨e, hle⟩ := move_bit k j' i' hb ha
    rw [← e]; omega
  have hdisj : ∀ k, ((2 ^ i' &&& k == 0) && (2 ^ j' &&& k != 0)) = true →
      ((2 ^ i' &&& (k + (2 ^ i' - 2 ^ j')) == 0) && (2 ^ j' &&& (k + (2 ^ i' - 2 ^ j')) != 0)) = false := by
    intro k hk
    rw [hP] at hk ⊢
    obtain ⟨ha, hb⟩ := hbits k hk
    rw [hmove k ha hb]
    have : (k ^^^ (2 ^ j' ^^^ 2 ^ i')).testBit i' = true := by
      rw [Nat.testBit_xor, Nat.testBit_xor, Nat.testBit_two_pow, Nat.testBit_two_pow, ha]
      have : ¬ j' = i' := by omega
      simp [this]
    simp [this]
  have hin : ∀ k, ((2 ^ i' &&& k == 0) && (2 ^ j' &&& k != 0)) = true → k < t.size →
      k + (2 ^ i' - 2 ^ j') < t.size := by
    intro k hk hlt
    rw [hP] at hk
    obtain ⟨ha, hb⟩ := hbits k hk
    rw [hmove k ha hb, hsz]
    apply Nat.xor_lt_two_pow (hsz ▸ hlt)
    exact Nat.xor_lt_two_pow (Nat.pow_lt_pow_right (by omega) (by omega)) (Nat.pow_lt_pow_right (by omega) hi)
  rw [pairLoopUpTo_get _ (2 ^ i' - 2 ^ j') _ t (by omega) hdisj hin t.size (Nat.le_refl _) w hw]
  unfold pairSpec
  simp only [hP]
  cases ha : w.testBit i' <;> cases hb : w.testBit j'
  · -- both clear: untouched
    have e : exch i' j' w = w := by simp [exch, ha, hb]
    rw [e]
    have hnot : ¬ (2 ^ i' - 2 ^ j' ≤ w ∧ (!(w - (2 ^ i' - 2 ^ j')).testBit i' && (w - (2 ^ i' - 2 ^ j')).testBit j') = true ∧
        w - (2 ^ i' - 2 ^ j') < t.size) := by
      rintro ⟨hle, hp, _⟩
      obtain ⟨pa, pb⟩ := hbits _ hp
      have := hmove _ pa pb
      have e2 : w - (2 ^ i' - 2 ^ j') + (2 ^ i' - 2 ^ j') = w := by omega
      rw [e2] at this
      have hw' : w.testBit i' = true := by
        rw [this, Nat.testBit_xor, Nat.testBit_xor, Nat.testBit_two_pow, Nat.testBit_two_pow, pa]
        have : ¬ j' = i' := by omega
        simp [this]
      rw [ha] at hw'; cases hw'
    simp only [Bool.not_false, Bool.not_true, Bool.and_false, Bool.false_and, Bool.false_eq_true, false_and, if_false]
    rw [if_neg hnot]
  · -- leader
    have e : exch i' j' w = w + (2 ^ i' - 2 ^ j') := by
      rw [hmove w ha hb]; simp [exch, ha, hb, Nat.xor_comm]
    simp [hw, e]
  · -- partner of a leader
    obtain ⟨e, hle⟩ := move_bit w i' j' ha hb
    have e' : w - (2 ^ i' - 2 ^ j') = w ^^^ (2 ^ i' ^^^ 2 ^ j') := by rw [← e]; omega
    have hd : 2 ^ i' - 2 ^ j' ≤ w := by omega
    have pa : (w ^^^ (2 ^ i' ^^^ 2 ^ j')).testBit i' = false := by
      rw [Nat.testBit_xor, Nat.testBit_xor, Nat.testBit_two_pow, Nat.testBit_two_pow, ha]
      have : ¬ j' = i' := by omega
      simp [this]
    have pb : (w ^^^ (2 ^ i' ^^^ 2 ^ j')).testBit j' = true := by
      rw [Nat.testBit_xor, Nat.testBit_xor, Nat.testBit_two_pow, Nat.testBit_two_pow, hb]
      have : ¬ i' = j' := by omega
      simp [this]
    have hlt : w ^^^ (2 ^ i' ^^^ 2 ^ j') < t.size := by
      rw [← e']; exact Nat.lt_of_le_of_lt (Nat.sub_le _ _) hw
    have ex : exch i' j' w = w ^^^ (2 ^ i' ^^^ 2 ^ j') := by simp [exch, ha, hb]
    rw [ex, e']
    simp [hd, pa, pb, hlt]
  · -- both set: untouched
    have e : exch i' j' w = w := by simp [exch, ha, hb]
    rw [e]
    have hnot : ¬ (2 ^ i' - 2 ^ j' ≤ w ∧ (!(w - (2 ^ i' - 2 ^ j')).testBit i' && (w - (2 ^ i' - 2 ^ j')).testBit j') = true ∧
        w - (2 ^ i' - 2 ^ j') < t.size) := by
      rintro ⟨hle, hp, _⟩
      obtain ⟨pa, pb⟩ := hbits _ hp
      have := hmove _ pa pb
      have e2 : w - (2 ^ i' - 2 ^ j') + (2 ^ i' - 2 ^ j') = w := by omega
      rw [e2] at this
      have hw' : w.testBit j' = false := by
        rw [this, Nat.testBit_xor, Nat.testBit_xor, Nat.testBit_two_pow, Nat.testBit_two_pow, pb]
        have : ¬ i' = j' := by omega
        simp [this]
      rw [hb] at hw'; cases hw'
    simp only [Bool.not_false, Bool.not_true, Bool.and_false, Bool.false_and, Bool.false_eq_true, false_and, if_false]
    rw [if_neg hnot]

theorem swapInplace_comm' (t : Array W) (i j : Nat) : swapInplace t i j = swapInplace t j i := by
  unfold swapInplace
  by_cases h : i = j
  · subst h; rfl
  · have h' : ¬ j = i := fun e => h e.symm
    simp only [h, h', if_false, Nat.max_comm i j, Nat.min_comm i j]

end VoluteModel

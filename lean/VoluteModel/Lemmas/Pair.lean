import VoluteModel.Model.Ops
import VoluteModel.Lemmas.NatBits

/-!
# The in-place pair loop: closed ("gather") form

`for k in 0..len { if P k { (t[k], t[k+d]) := g (t[k], t[k+d]) } }` with disjoint pairs whose
leader is the smaller index.  One invariant argument serves flip, cofactor0/1 and both
cross-word regimes of swap.
-/

namespace VoluteModel

def pairLoopUpTo (P : Nat → Bool) (partner : Nat → Nat) (g : W → W → W × W) (t : Array W) (m : Nat) : Array W :=
  (List.range m).foldl (pairStepF P partner g) t

theorem pairLoopF_eq (P partner g t) : pairLoopF P partner g t = pairLoopUpTo P partner g t t.size := rfl

theorem pairLoopUpTo_succ (P partner g) (t : Array W) (m : Nat) :
    pairLoopUpTo P partner g t (m+1) = pairStepF P partner g (pairLoopUpTo P partner g t m) m := by
  unfold pairLoopUpTo
  rw [List.range_succ, List.foldl_append]; rfl

theorem pairStepF_size (P partner g) (t : Array W) (k : Nat) : (pairStepF P partner g t k).size = t.size := by
  unfold pairStepF; split <;> simp

theorem pairLoopUpTo_size (P partner g) (t : Array W) (m : Nat) : (pairLoopUpTo P partner g t m).size = t.size := by
  induction m with
  | zero => simp [pairLoopUpTo]
  | succ m ih => rw [pairLoopUpTo_succ, pairStepF_size, ih]

theorem pairLoopF_size (P partner g) (t : Array W) : (pairLoopF P partner g t).size = t.size := by
  rw [pairLoopF_eq, pairLoopUpTo_size]

/-- the partner function only matters where the guard holds -/
theorem pairLoopUpTo_congr (P : Nat → Bool) (p1 p2 : Nat → Nat) (g) (t : Array W) (m : Nat)
    (h : ∀ k, P k = true → p1 k = p2 k) : pairLoopUpTo P p1 g t m = pairLoopUpTo P p2 g t m := by
  induction m with
  | zero => rfl
  | succ m ih =>
    rw [pairLoopUpTo_succ, pairLoopUpTo_succ, ih]
    unfold pairStepF
    by_cases hP : P m = true
    · simp only [hP, if_true, h m hP]
    · simp only [hP, if_false]; rfl

theorem pairLoopUpTo_congrP (P1 P2 : Nat → Bool) (p : Nat → Nat) (g) (t : Array W) (m : Nat)
    (h : ∀ k, P1 k = P2 k) : pairLoopUpTo P1 p g t m = pairLoopUpTo P2 p g t m := by
  have : P1 = P2 := funext h
  rw [this]

/-- closed form of the partially executed loop -/
def pairSpec (P : Nat → Bool) (d : Nat) (g : W → W → W × W) (t : Array W) (m k : Nat) : W :=
  if P k = true ∧ k < m then (g (t[k]?.getD 0) (t[k + d]?.getD 0)).1
  else if d ≤ k ∧ P (k - d) = true ∧ k - d < m then (g (t[k - d]?.getD 0) (t[k]?.getD 0)).2
  else t[k]?.getD 0

theorem pairLoopUpTo_get (P : Nat → Bool) (d : Nat) (g : W → W → W × W) (t : Array W)
    (hd : 0 < d)
    (hdisj : ∀ k, P k = true → P (k + d) = false)
    (hin : ∀ k, P k = true → k < t.size → k + d < t.size)
    (m : Nat) (hm : m ≤ t.size) : ∀ k, k < t.size →
    (pairLoopUpTo P (· + d) g t m)[k]?.getD 0 = pairSpec P d g t m k := by
  have hlead : ∀ k, P k = true → d ≤ k → P (k - d) = false := by
    intro k hk hle
    cases h : P (k - d) with
    | false => rfl
    | true =>
      have := hdisj (k - d) h
      have e : k - d + d = k := by omega
      rw [e, hk] at this; cases this
  induction m with
  | zero => intro k hk; simp [pairLoopUpTo, pairSpec]
  | succ m ih =>
    have ih := ih (by omega)
    intro k hk
    have hsz := pairLoopUpTo_size P (· + d) g t m
    rw [pairLoopUpTo_succ]
    unfold pairStepF
    by_cases hPm : P m = true
    · have hmd : m + d < t.size := hin m hPm (by omega)
      have hsm : (pairLoopUpTo P (· + d) g t m)[m]?.getD 0 = t[m]?.getD 0 := by
        rw [ih m (by omega)]; unfold pairSpec
        have : ¬ (m < m) := by omega
        by_cases hdm : d ≤ m
        · simp [this, hlead m hPm hdm]
        · simp [this, hdm]
      have hsmd : (pairLoopUpTo P (· + d) g t m)[m + d]?.getD 0 = t[m + d]?.getD 0 := by
        rw [ih (m+d) hmd]; unfold pairSpec
        simp [hdisj m hPm]
      simp only [hPm, if_true, hsm, hsmd]
      rw [Array.getElem?_setIfInBounds, Array.getElem?_setIfInBounds]
      simp only [Array.size_setIfInBounds, hsz]
      by_cases h1 : m + d = k
      · subst h1
        simp only [if_true, hmd, Option.getD_some]
        unfold pairSpec
        simp [hdisj m hPm, hPm]
      · by_cases h2 : m = k
        · subst h2
          have : m < t.size := by omega
          simp only [h1, if_false, if_true, this, Option.getD_some]
          unfold pairSpec; simp [hPm]
        · simp only [h1, h2, if_false]
          rw [ih k hk]; unfold pairSpec
          have e1 : (k < m + 1) ↔ (k < m) := by omega
          have e2 : (k - d < m + 1) ↔ (k - d < m) ∨ (k - d = m) := by omega
          by_cases h3 : d ≤ k
          · have : k - d ≠ m := by omega
            simp only [e1, e2, this, or_false]
          · simp only [e1, h3, false_and, if_false]
    · simp only [hPm, if_false, Bool.false_eq_true]
      rw [ih k hk]; unfold pairSpec
      have hPm' : P m = false := by simpa using hPm
      by_cases h2 : m = k
      · subst h2
        have e0 : ¬ (m < m) := by omega
        have e2 : (m - d < m + 1) ↔ (m - d < m) ∨ (m - d = m) := by omega
        by_cases h3 : d ≤ m
        · have : m - d ≠ m := by omega
          simp only [hPm', e0, e2, this, or_false, and_false, Bool.false_eq_true, false_and, if_false]
        · simp only [hPm', e0, h3, and_false, Bool.false_eq_true, false_and, if_false]
      · have e1 : (k < m + 1) ↔ (k < m) := by omega
        by_cases h3 : d ≤ k ∧ k - d = m
        · obtain ⟨h3a, h3b⟩ := h3
          simp [e1, h3b, hPm']
        · have e2 : (d ≤ k ∧ P (k - d) = true ∧ k - d < m + 1) ↔ (d ≤ k ∧ P (k - d) = true ∧ k - d < m) := by
            constructor
            · rintro ⟨a, b, c⟩; exact ⟨a, b, by omega⟩
            · rintro ⟨a, b, c⟩; exact ⟨a, b, by omega⟩
          simp only [e1, e2]


/-- the finished loop for the guard "bit `j` of the word index is clear" and stride `2^j`
    (flip, cofactors, mixed swap): word `k` of the result in terms of the original words -/
theorem pairLoop_stride (j : Nat) (g : W → W → W × W) (t : Array W) (n' : Nat)
    (hsz : t.size = 2 ^ n') (hj : j < n') (k : Nat) (hk : k < t.size) :
    (pairLoopF (fun i => i &&& (1 <<< j) == 0) (fun i => i + (1 <<< j)) g t)[k]?.getD 0 =
      if k.testBit j = false then (g (t[k]?.getD 0) (t[k + 2^j]?.getD 0)).1
      else (g (t[k - 2^j]?.getD 0) (t[k]?.getD 0)).2 := by
  simp only [Nat.shiftLeft_eq, Nat.one_mul]
  rw [pairLoopF_eq]
  have hP : ∀ q, (q &&& 2^j == 0) = !q.testBit j := fun q => and_two_pow_eq_zero q j
  have hpow : 2^j < 2^n' := Nat.pow_lt_pow_right (by omega) hj
  have hdisj : ∀ q, (q &&& 2^j == 0) = true → (q + 2^j &&& 2^j == 0) = false := by
    intro q hq
    rw [hP] at hq ⊢
    have hq' : q.testBit j = false := by simpa using hq
    rw [← xor_two_pow_of_clear q j hq', Nat.testBit_xor, hq', Nat.testBit_two_pow_self]; rfl
  have hin : ∀ q, (q &&& 2^j == 0) = true → q < t.size → q + 2^j < t.size := by
    intro q hq hlt
    rw [hP] at hq
    have hq' : q.testBit j = false := by simpa using hq
    rw [← xor_two_pow_of_clear q j hq', hsz]
    exact Nat.xor_lt_two_pow (hsz ▸ hlt) hpow
  rw [pairLoopUpTo_get (fun i => i &&& 2^j == 0) (2^j) g t (Nat.two_pow_pos j) hdisj hin t.size (Nat.le_refl _) k hk]
  unfold pairSpec
  simp only [hP]
  cases hb : k.testBit j
  · simp [hk]
  · obtain ⟨e, hle⟩ := xor_two_pow_of_set k j hb
    have hb' : (k - 2^j).testBit j = false := by
      rw [← e, Nat.testBit_xor, hb, Nat.testBit_two_pow_self]; rfl
    have : k - 2^j < t.size := Nat.lt_of_le_of_lt (Nat.sub_le _ _) hk
    simp [hle, hb', this]

end VoluteModel

import VoluteModel.Lemmas.CanonCert
import VoluteModel.Lemmas.Cmp
import VoluteModel.Lemmas.WFLemmas
import VoluteModel.Props.C08
import VoluteModel.Lemmas.SeqCore

/-!
# The canonization walks: minimum over the visited tables, certificate of the result
-/

namespace VoluteModel

/-! ## the comparison is a strict order -/

theorem lexCmp_self (a : List W) : lexCmp a a = .eq := by
  induction a with
  | nil => rfl
  | cons x xs ih => simp [lexCmp, ih]

theorem lexCmp_lt_trans : ∀ (a b c : List W), lexCmp a b = .lt → lexCmp b c = .lt → lexCmp a c = .lt
  | [], [], _, h, _ => by simp [lexCmp] at h
  | [], _ :: _, [], _, h => by simp [lexCmp] at h
  | [], _ :: _, _ :: _, _, _ => rfl
  | _ :: _, [], _, h, _ => by simp [lexCmp] at h
  | _ :: _, _ :: _, [], _, h => by simp [lexCmp] at h
  | x :: xs, y :: ys, z :: zs, h1, h2 => by
    simp only [lexCmp] at h1 h2 ⊢
    rcases Nat.lt_trichotomy x.toNat y.toNat with hxy | hxy | hxy
    · rw [Nat.compare_eq_lt.mpr hxy] at h1
      rcases Nat.lt_trichotomy y.toNat z.toNat with hyz | hyz | hyz
      · rw [Nat.compare_eq_lt.mpr (by omega)]
      · rw [Nat.compare_eq_lt.mpr (by omega)]
      · rw [Nat.compare_eq_gt.mpr hyz] at h2; cases h2
    · rw [Nat.compare_eq_eq.mpr hxy] at h1
      rcases Nat.lt_trichotomy y.toNat z.toNat with hyz | hyz | hyz
      · rw [Nat.compare_eq_lt.mpr (by omega)]
      · rw [Nat.compare_eq_eq.mpr hyz] at h2
        rw [Nat.compare_eq_eq.mpr (by omega)]
        exact lexCmp_lt_trans xs ys zs h1 h2
      · rw [Nat.compare_eq_gt.mpr hyz] at h2; cases h2
    · rw [Nat.compare_eq_gt.mpr hxy] at h1; cases h1

theorem ltT_trans (a b c : Array W) (h1 : ltT a b = true) (h2 : ltT b c = true) : ltT a c = true := by
  unfold ltT cmpTables at *
  have e1 : lexCmp a.toList.reverse b.toList.reverse = .lt := by simpa using h1
  have e2 : lexCmp b.toList.reverse c.toList.reverse = .lt := by simpa using h2
  simp [lexCmp_lt_trans _ _ _ e1 e2]

theorem ltT_irrefl (a : Array W) : ltT a a = false := by
  unfold ltT cmpTables; rw [lexCmp_self]; rfl

/-! ## masks along the flip walk -/

theorem certAfter_macroN (n : Nat) (p : Array Nat) (m : Nat) (flips : List Nat) :
    certAfter n (p, m) (macroN flips).flatten = (p, m ^^^ xorFlips flips) := by
  induction flips generalizing m with
  | nil => simp [macroN, certAfter, xorFlips]
  | cons f fs ih =>
    have hm : macroN (f :: fs) = [Elem.flip f, Elem.neg] :: [Elem.neg] :: macroN fs := by simp [macroN]
    rw [hm]
    simp only [List.flatten_cons, certAfter_append]
    have c1 : certAfter n (p, m) [Elem.flip f, Elem.neg] = (p, (m ^^^ (1 <<< f)) ^^^ (1 <<< n)) := rfl
    have c2 : certAfter n (p, (m ^^^ (1 <<< f)) ^^^ (1 <<< n)) [Elem.neg] = (p, ((m ^^^ (1 <<< f)) ^^^ (1 <<< n)) ^^^ (1 <<< n)) := rfl
    rw [c1, c2, ih]
    congr 1
    have : ((m ^^^ (1 <<< f)) ^^^ (1 <<< n)) ^^^ (1 <<< n) = m ^^^ (1 <<< f) := by
      rw [Nat.xor_assoc, Nat.xor_self, Nat.xor_zero]
    rw [this]
    show m ^^^ 1 <<< f ^^^ xorFlips fs = m ^^^ xorFlips (f :: fs)
    unfold xorFlips
    simp only [List.foldl_cons]
    rw [xorFlips_foldl fs (0 ^^^ 1 <<< f)]
    simp [xorFlips, Nat.xor_assoc]

theorem safe_macroN (n : Nat) (p : Array Nat) (m : Nat) (flips : List Nat) (hv : ∀ f ∈ flips, f < n) :
    Safe n (p, m) (macroN flips).flatten := by
  induction flips generalizing m with
  | nil => simp [macroN, Safe]
  | cons f fs ih =>
    have hm : macroN (f :: fs) = [Elem.flip f, Elem.neg] :: [Elem.neg] :: macroN fs := by simp [macroN]
    rw [hm]
    simp only [List.flatten_cons, List.cons_append, List.nil_append, Safe, ElemOK, rstepE, true_and]
    exact ⟨hv f (by simp), ih _ (fun x hx => hv x (by simp [hx]))⟩

theorem macroP_flatten (swaps : List Nat) : (macroP swaps).flatten = swaps.map Elem.swap := by
  induction swaps with
  | nil => rfl
  | cons s ss ih => simp only [macroP, List.map_cons, List.flatten_cons] at ih ⊢; rw [ih]; rfl

theorem safe_swaps (n : Nat) (p : Array Nat) (m : Nat) (swaps : List Nat) (hv : ∀ s ∈ swaps, s + 1 < n)
    (hm : LowZero n m) : Safe n (p, m) (swaps.map Elem.swap) ∧ (certAfter n (p, m) (swaps.map Elem.swap)).2 = m := by
  induction swaps generalizing p with
  | nil => exact ⟨trivial, rfl⟩
  | cons s ss ih =>
    simp only [List.map_cons, Safe, ElemOK, rstepE, certAfter, List.foldl_cons]
    obtain ⟨i1, i2⟩ := ih (p.swapIfInBounds s (s + 1)) (fun x hx => hv x (by simp [hx]))
    exact ⟨⟨⟨hv s (by simp), hm⟩, i1⟩, i2⟩

theorem macroBlock_flatten (s : Nat) (flips : List Nat) (h : flips ≠ []) :
    (macroBlock s flips).flatten = Elem.swap s :: (macroN flips).flatten := by
  match flips, h with
  | f0 :: fs, _ =>
    have hm : macroN (f0 :: fs) = [Elem.flip f0, Elem.neg] :: [Elem.neg] :: macroN fs := by simp [macroN]
    rw [hm]; simp [macroBlock]

theorem safe_macroNPN (n : Nat) (swaps flips : List Nat) (hf : flips ≠ []) (hvs : ∀ s ∈ swaps, s + 1 < n)
    (hvf : ∀ f ∈ flips, f < n) (hclosed : xorFlips flips = 0) (p : Array Nat) (m : Nat) (hm : LowZero n m) :
    Safe n (p, m) (macroNPN swaps flips).flatten ∧ (certAfter n (p, m) (macroNPN swaps flips).flatten).2 = m := by
  induction swaps generalizing p with
  | nil => simp [macroNPN, Safe, certAfter]
  | cons s ss ih =>
    have hnpn : macroNPN (s :: ss) flips = macroBlock s flips ++ macroNPN ss flips := by simp [macroNPN]
    rw [hnpn, List.flatten_append, macroBlock_flatten s flips hf]
    simp only [List.cons_append, Safe, ElemOK, rstepE]
    rw [Safe_append, certAfter_macroN, hclosed, Nat.xor_zero]
    obtain ⟨i1, i2⟩ := ih (fun x hx => hvs x (by simp [hx])) (p.swapIfInBounds s (s + 1))
    refine ⟨⟨⟨hvs s (by simp), hm⟩, safe_macroN n _ m flips hvf, i1⟩, ?_⟩
    show (certAfter n (p, m) (Elem.swap s :: ((macroN flips).flatten ++ (macroNPN ss flips).flatten))).2 = m
    have : certAfter n (p, m) (Elem.swap s :: ((macroN flips).flatten ++ (macroNPN ss flips).flatten)) =
        certAfter n (certAfter n (p.swapIfInBounds s (s + 1), m) (macroN flips).flatten) (macroNPN ss flips).flatten := by
      simp only [certAfter, List.foldl_cons, List.foldl_append, rstepE]
    rw [this, certAfter_macroN, hclosed, Nat.xor_zero]
    exact i2

/-! ## the generic result -/

theorem stateAt_flatten (n : Nat) (f : Array W) (ms : List (List Elem)) (k : Nat) :
    stateAt (applyElems n) f ms k = applyElems n f (ms.take k).flatten := by
  unfold stateAt applyElems
  rw [List.foldl_flatten]

theorem Safe_prefix (n : Nat) (st : Array Nat × Nat) (ms : List (List Elem)) (k : Nat)
    (h : Safe n st ms.flatten) : Safe n st (ms.take k).flatten := by
  have : ms.flatten = (ms.take k).flatten ++ (ms.drop k).flatten := by
    rw [← List.flatten_append, List.take_append_drop]
  rw [this, Safe_append] at h
  exact h.1

/-- everything the walk gives, for any admissible macro-step list that ends where it started -/
theorem walk_result (n : Nat) (f : Array W) (hs : f.size = tableSize n) (ms : List (List Elem))
    (hne : 1 ≤ ms.length) (hsafe : Safe n (Array.range n, 0) ms.flatten)
    (hclosed : stateAt (applyElems n) f ms ms.length = f) :
    let r := mwalk n ⟨f, f, ms.length - 1, 0⟩ ms
    r.bestInd < ms.length ∧ r.best = stateAt (applyElems n) f ms (r.bestInd + 1) ∧
    (∀ k, k ≤ ms.length → ltT (stateAt (applyElems n) f ms k) r.best = false) ∧
    (∀ k, k ≤ ms.length →
      CertRel n f (stateAt (applyElems n) f ms k) (certAt n ms k).1 (certAt n ms k).2) := by
  intro r
  have hr : r = mwalk n ⟨f, f, ms.length - 1, 0⟩ ms := rfl
  rw [mwalk_eq] at hr
  have hw := walk_spec (applyElems n) ltT ltT_trans ltT_irrefl f ms hne hclosed
  simp only [walk] at hw
  obtain ⟨w1, w2, w3⟩ := hw
  have hb : r.best = (walkAux (applyElems n) ltT f f (ms.length - 1) 0 ms).1 := by rw [hr]
  have hi : r.bestInd = (walkAux (applyElems n) ltT f f (ms.length - 1) 0 ms).2 := by rw [hr]
  refine ⟨by rw [hi]; exact w2, by rw [hb, hi]; exact w3.symm, fun k hk => by rw [hb]; exact w1 k hk, ?_⟩
  intro k hk
  rw [stateAt_flatten]
  unfold certAt
  exact cert_elems n f f _ (Array.range n, 0) hs (by simp) (cert_init n f) (Safe_prefix n _ ms k hsafe)

/-- a table with the identity certificate is the function itself -/
theorem eq_of_cert_id (n : Nat) (f t : Array W) (hf : WF n f) (ht : WF n t)
    (h : CertRel n f t (Array.range n) 0) : t = f := by
  have := VoluteModel.Props.C08.eq_of_eval ⟨n, t⟩ ⟨n, f⟩ ht hf rfl (by
    intro m hm
    have := h m m hm hm (by intro i hi; simp [hi])
    simpa [Lut.eval] using this)
  exact congrArg Lut.t this

theorem applyElems_WF (n : Nat) (t : Array W) (h : WF n t) (es : List Elem)
    (hv : ∀ e ∈ es, (∀ s, e = Elem.swap s → s + 1 < n) ∧ (∀ f, e = Elem.flip f → f < n)) :
    WF n (applyElems n t es) := by
  induction es generalizing t with
  | nil => exact h
  | cons e es ih =>
    simp only [applyElems, List.foldl_cons] at ih ⊢
    apply ih
    · cases e with
      | swap s => exact swap_WF n t h s (s + 1) (by have := (hv _ (by simp)).1 s rfl; omega) ((hv _ (by simp)).1 s rfl)
      | flip f => exact flip_WF n t h f ((hv _ (by simp)).2 f rfl)
      | neg => exact VoluteModel.Props.C01.not_WF n t h.1
    · intro e' he'; exact hv e' (by simp [he'])

theorem safe_valid (n : Nat) (st : Array Nat × Nat) (es : List Elem) (h : Safe n st es) :
    ∀ e ∈ es, (∀ s, e = Elem.swap s → s + 1 < n) ∧ (∀ f, e = Elem.flip f → f < n) := by
  induction es generalizing st with
  | nil => intro e he; cases he
  | cons e0 es ih =>
    intro e he
    obtain ⟨hok, hrest⟩ := h
    rcases List.mem_cons.mp he with rfl | he'
    · cases e with
      | swap s => exact ⟨fun s' hs' => (by cases hs'; exact hok.1), fun f hf => (by cases hf)⟩
      | flip f => exact ⟨fun s hs => (by cases hs), fun f' hf' => (by cases hf'; exact hok)⟩
      | neg => exact ⟨fun s hs => (by cases hs), fun f hf => (by cases hf)⟩
    · exact ih _ hrest e he'

/-- a closed certificate walk is a closed table walk -/
theorem closed_of_cert (n : Nat) (f : Array W) (hf : WF n f) (ms : List (List Elem))
    (hsafe : Safe n (Array.range n, 0) ms.flatten) (hc : certAt n ms ms.length = (Array.range n, 0)) :
    stateAt (applyElems n) f ms ms.length = f := by
  rw [stateAt_flatten, List.take_length]
  have hcert := cert_elems n f f ms.flatten (Array.range n, 0) hf.1 (by simp) (cert_init n f) hsafe
  have hc' : certAfter n (Array.range n, 0) ms.flatten = (Array.range n, 0) := by
    unfold certAt at hc; rw [List.take_length] at hc; exact hc
  rw [hc'] at hcert
  exact eq_of_cert_id n f _ hf (applyElems_WF n f hf _ (safe_valid n _ _ hsafe)) hcert

end VoluteModel

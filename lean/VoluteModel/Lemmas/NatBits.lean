/-!
# Arithmetic of single bits of natural numbers: `k ^^^ 2^j` as addition / subtraction
-/

namespace VoluteModel

theorem xor_one_even (q : Nat) (h : q % 2 = 0) : q ^^^ 1 = q + 1 := by
  apply Nat.eq_of_testBit_eq
  intro i
  rw [Nat.testBit_xor]
  cases i with
  | zero =>
    simp only [Nat.testBit_zero]
    have : (q + 1) % 2 = 1 := by omega
    simp [h, this]
  | succ i =>
    have h1 : Nat.testBit 1 (i+1) = false := by
      simp [Nat.testBit_succ]
    rw [h1, Bool.xor_false]
    simp only [Nat.testBit_succ]
    congr 1
    omega

theorem xor_one_odd (q : Nat) (h : q % 2 = 1) : q ^^^ 1 = q - 1 := by
  have h0 : (q - 1) % 2 = 0 := by omega
  have h2 := xor_one_even (q-1) h0
  have h3 : q - 1 + 1 = q := by omega
  rw [h3] at h2
  calc q ^^^ 1 = ((q - 1) ^^^ 1) ^^^ 1 := by rw [h2]
    _ = q - 1 := by rw [Nat.xor_assoc, Nat.xor_self, Nat.xor_zero]

theorem xor_two_pow_of_clear (k j : Nat) (h : k.testBit j = false) : k ^^^ 2^j = k + 2^j := by
  have hq : (k / 2^j) % 2 = 0 := by
    have := h; rw [Nat.testBit_eq_decide_div_mod_eq] at this; simpa using this
  have e1 : (k ^^^ 2^j) / 2^j = k / 2^j + 1 := by
    rw [Nat.xor_div_two_pow, Nat.div_self (Nat.two_pow_pos j), xor_one_even _ hq]
  have e2 : (k ^^^ 2^j) % 2^j = k % 2^j := by
    rw [Nat.xor_mod_two_pow, Nat.mod_self, Nat.xor_zero]
  have d1 := Nat.div_add_mod (k ^^^ 2^j) (2^j)
  have d2 := Nat.div_add_mod k (2^j)
  rw [e1, e2] at d1
  rw [Nat.mul_add, Nat.mul_one] at d1
  omega

theorem xor_two_pow_of_set (k j : Nat) (h : k.testBit j = true) : k ^^^ 2^j = k - 2^j ∧ 2^j ≤ k := by
  have hge := Nat.ge_two_pow_of_testBit h
  have hq : (k / 2^j) % 2 = 1 := by
    have := h; rw [Nat.testBit_eq_decide_div_mod_eq] at this; simpa using this
  have hpos : 1 ≤ k / 2^j := by generalize k / 2^j = x at hq; omega
  have e1 : (k ^^^ 2^j) / 2^j = k / 2^j - 1 := by
    rw [Nat.xor_div_two_pow, Nat.div_self (Nat.two_pow_pos j), xor_one_odd _ hq]
  have e2 : (k ^^^ 2^j) % 2^j = k % 2^j := by
    rw [Nat.xor_mod_two_pow, Nat.mod_self, Nat.xor_zero]
  have d1 := Nat.div_add_mod (k ^^^ 2^j) (2^j)
  have d2 := Nat.div_add_mod k (2^j)
  rw [e1, e2] at d1
  obtain ⟨c, hc⟩ : ∃ c, k / 2^j = c + 1 := ⟨k / 2^j - 1, by omega⟩
  rw [hc] at d1 d2
  simp only [Nat.add_sub_cancel] at d1
  rw [Nat.mul_add, Nat.mul_one] at d2
  constructor <;> omega

theorem and_two_pow_eq_zero (k j : Nat) : (k &&& 2^j == 0) = !k.testBit j := by
  cases h : k.testBit j
  · have : k &&& 2^j = 0 := by
      apply Nat.eq_of_testBit_eq; intro i
      rw [Nat.testBit_and, Nat.testBit_two_pow, Nat.zero_testBit]
      by_cases hji : j = i
      · subst hji; simp [h]
      · simp [hji]
    simp [this]
  · have : k &&& 2^j ≠ 0 := by
      intro h0
      have := congrArg (fun x => x.testBit j) h0
      simp [Nat.testBit_and, Nat.testBit_two_pow, h] at this
    simp [this]

theorem two_pow_and_eq_zero (k j : Nat) : (2^j &&& k == 0) = !k.testBit j := by
  rw [Nat.and_comm]; exact and_two_pow_eq_zero k j

/-- bits of `k ^^^ 2^j` -/
theorem testBit_xor_two_pow (k j i : Nat) : (k ^^^ 2^j).testBit i = (k.testBit i != decide (j = i)) := by
  rw [Nat.testBit_xor, Nat.testBit_two_pow]

/-- word / in-word split of an assignment index: bit `i` of `64 * w + b` -/
theorem testBit_word_split (w b i : Nat) (hb : b < 64) :
    (64 * w + b).testBit i = if i < 6 then b.testBit i else w.testBit (i - 6) := by
  have h64 : (64 : Nat) = 2 ^ 6 := rfl
  rw [h64, Nat.testBit_two_pow_mul_add w (by rw [← h64]; exact hb)]

theorem testBit_of_div_mod (m i : Nat) :
    m.testBit i = if i < 6 then (m % 64).testBit i else (m / 64).testBit (i - 6) := by
  have := testBit_word_split (m / 64) (m % 64) i (Nat.mod_lt _ (by omega))
  rw [Nat.div_add_mod] at this
  exact this

end VoluteModel

/-!
# Reduced ordered BDDs with complemented edges over truth tables written as numbers

A table of k variables is a number below `P k = 2^(2^k)`: bit m is the value on assignment m.
`mk k t` is the reduced ordered BDD (variable k-1 at the root, variable 0 at the bottom) of a
table whose value on the all-zero assignment is 0, with the constant 0 as the only leaf, regular
low edges and a complement attribute on high edges; the root edge of a function is complemented
when its value on the all-zero assignment is 1 (`norm`).  This is the textbook structure; the
file proves that it is canonical (`mk_inj`) and which nodes it has (`mem_nodes_mk`).
-/

namespace VoluteModel.Robdd


def P (k : Nat) : Nat := 2 ^ (2 ^ k)

theorem P_succ (k : Nat) : P (k + 1) = P k * P k := by
  unfold P
  rw [Nat.pow_succ, Nat.mul_two, Nat.pow_add]

theorem P_pos (k : Nat) : 0 < P k := Nat.two_pow_pos _

theorem P_even (k : Nat) : P k % 2 = 0 := by
  unfold P
  have : 2 ^ k = (2 ^ k - 1) + 1 := by have := Nat.two_pow_pos k; omega
  rw [this, Nat.pow_succ]
  omega

/-- complement of a table of k variables -/
def compl (k t : Nat) : Nat := P k - 1 - t

/-- normal form: the value on the all-zero assignment is 0 (the complement is taken otherwise) -/
def norm (k t : Nat) : Nat := if t % 2 = 1 then compl k t else t

inductive B where
  | leaf : B
  | node (v : Nat) (lo hi : B) (c : Bool) : B
deriving DecidableEq

/-- the BDD of a normalised table of k variables -/
def mk : Nat → Nat → B
  | 0, _ => .leaf
  | k + 1, t =>
    if t % P k = t / P k then mk k (t % P k)
    else .node k (mk k (t % P k)) (mk k (norm k (t / P k))) (decide ((t / P k) % 2 = 1))

/-- a normalised table of k variables -/
def Valid (k t : Nat) : Prop := t < P k ∧ t % 2 = 0

theorem lo_valid (k t : Nat) (h : Valid (k + 1) t) : Valid k (t % P k) := by
  refine ⟨Nat.mod_lt _ (P_pos k), ?_⟩
  have := P_even k
  have h2 := h.2
  rw [Nat.mod_mod_of_dvd t (Nat.dvd_of_mod_eq_zero this)]
  exact h2

theorem hi_lt (k t : Nat) (h : Valid (k + 1) t) : t / P k < P k := by
  rw [Nat.div_lt_iff_lt_mul (P_pos k), ← P_succ]
  exact h.1

theorem compl_lt (k t : Nat) : compl k t < P k := by
  unfold compl; have := P_pos k; omega

theorem norm_valid (k t : Nat) (h : t < P k) : Valid k (norm k t) := by
  unfold norm
  split
  · rename_i ht
    refine ⟨compl_lt k t, ?_⟩
    unfold compl
    have := P_even k
    have := P_pos k
    omega
  · rename_i ht
    exact ⟨h, by omega⟩

theorem norm_of_valid (k t : Nat) (h : Valid k t) : norm k t = t := by
  unfold norm
  have := h.2
  rw [if_neg (by omega)]

theorem mk_zero (k : Nat) : mk k 0 = .leaf := by
  induction k with
  | zero => rfl
  | succ k ih => simp [mk, ih]

/-- the root of `mk k t` is labelled below k -/
theorem root_lt (k t v : Nat) (lo hi : B) (c : Bool) (h : mk k t = .node v lo hi c) : v < k := by
  induction k generalizing t with
  | zero => simp [mk] at h
  | succ k ih =>
    simp only [mk] at h
    split at h
    · have := ih _ h; omega
    · cases h; omega

theorem mk_eq_leaf (k t : Nat) (hv : Valid k t) (h : mk k t = .leaf) : t = 0 := by
  induction k generalizing t with
  | zero =>
    have h1 := hv.1
    have h2 := hv.2
    unfold P at h1
    simp at h1
    omega
  | succ k ih =>
    simp only [mk] at h
    split at h
    · rename_i heq
      have hl := ih _ (lo_valid k t hv) h
      have : t = P k * (t / P k) + t % P k := (Nat.div_add_mod t (P k)).symm
      rw [← heq, hl] at this
      simpa using this
    · cases h

theorem norm_inj (k a b : Nat) (ha : a < P k) (hb : b < P k) (hp : a % 2 = b % 2) (h : norm k a = norm k b) : a = b := by
  unfold norm compl at h
  by_cases h1 : a % 2 = 1
  · have h2 : b % 2 = 1 := by omega
    rw [if_pos h1, if_pos h2] at h
    omega
  · have h2 : ¬ b % 2 = 1 := by omega
    rw [if_neg h1, if_neg h2] at h
    exact h

/-- canonicity: different normalised tables have different BDDs -/
theorem mk_inj (k t1 t2 : Nat) (h1 : Valid k t1) (h2 : Valid k t2) (h : mk k t1 = mk k t2) : t1 = t2 := by
  induction k generalizing t1 t2 with
  | zero =>
    have a := h1.1; have b := h1.2; have c := h2.1; have d := h2.2
    unfold P at a c
    simp at a c
    omega
  | succ k ih =>
    have e1 : t1 = P k * (t1 / P k) + t1 % P k := (Nat.div_add_mod t1 (P k)).symm
    have e2 : t2 = P k * (t2 / P k) + t2 % P k := (Nat.div_add_mod t2 (P k)).symm
    simp only [mk] at h
    by_cases c1 : t1 % P k = t1 / P k
    · by_cases c2 : t2 % P k = t2 / P k
      · rw [if_pos c1, if_pos c2] at h
        have := ih _ _ (lo_valid k t1 h1) (lo_valid k t2 h2) h
        rw [e1, e2, ← c1, ← c2, this]
      · rw [if_pos c1, if_neg c2] at h
        exact absurd (root_lt k _ _ _ _ _ h) (by omega)
    · by_cases c2 : t2 % P k = t2 / P k
      · rw [if_neg c1, if_pos c2] at h
        exact absurd (root_lt k _ _ _ _ _ h.symm) (by omega)
      · rw [if_neg c1, if_neg c2] at h
        injection h with _ hlo hhi hc
        have l := ih _ _ (lo_valid k t1 h1) (lo_valid k t2 h2) hlo
        have hn := ih _ _ (norm_valid k _ (hi_lt k t1 h1)) (norm_valid k _ (hi_lt k t2 h2)) hhi
        have hp : (t1 / P k) % 2 = (t2 / P k) % 2 := by
          have := decide_eq_decide.mp hc
          omega
        have hh := norm_inj k _ _ (hi_lt k t1 h1) (hi_lt k t2 h2) hp hn
        rw [e1, e2, l, hh]



/-- all node subterms -/
def nodes : B → List B
  | .leaf => []
  | .node v lo hi c => .node v lo hi c :: (nodes lo ++ nodes hi)

/-- the a-th block of 2^(v+1) bits of a table: the sub-function of the variables 0..v obtained by
    fixing the variables above v to the bits of a -/
def sub (v a t : Nat) : Nat := t / 2 ^ (a * 2 ^ (v + 1)) % P (v + 1)

/-- the sub-function depends on its top variable x_v -/
def dep (v g : Nat) : Prop := g % P v ≠ g / P v

instance (v g : Nat) : Decidable (dep v g) := by unfold dep; exact inferInstance

theorem sub_lt (v a t : Nat) : sub v a t < P (v + 1) := Nat.mod_lt _ (P_pos _)

theorem sub_testBit (v a t i : Nat) : (sub v a t).testBit i = (decide (i < 2 ^ (v + 1)) && t.testBit (a * 2 ^ (v + 1) + i)) := by
  unfold sub P
  rw [Nat.testBit_mod_two_pow, Nat.testBit_div_two_pow, Nat.add_comm i]

theorem compl_testBit (k t : Nat) (h : t < P k) (i : Nat) :
    (compl k t).testBit i = (decide (i < 2 ^ k) && !t.testBit i) := by
  unfold compl P
  have : 2 ^ 2 ^ k - 1 - t = 2 ^ 2 ^ k - (t + 1) := by omega
  rw [this]
  exact Nat.testBit_two_pow_sub_succ h i

/-- normal form absorbs complementation -/
theorem norm_compl (k g : Nat) (h : g < P k) : norm k (compl k g) = norm k g := by
  have hp := P_even k
  have hpos := P_pos k
  unfold norm compl
  by_cases hg : g % 2 = 1
  · have : ¬ (P k - 1 - g) % 2 = 1 := by omega
    rw [if_pos hg, if_neg this]
  · have : (P k - 1 - g) % 2 = 1 := by omega
    rw [if_neg hg, if_pos this]
    omega

/-- the blocks of the low half are the first half of the blocks -/
theorem sub_lo (n v a t : Nat) (hv : v < n) (ha : a < 2 ^ (n - 1 - v)) : sub v a (t % P n) = sub v a t := by
  apply Nat.eq_of_testBit_eq
  intro i
  rw [sub_testBit, sub_testBit]
  unfold P
  rw [Nat.testBit_mod_two_pow]
  by_cases hi : i < 2 ^ (v + 1)
  · have : a * 2 ^ (v + 1) + i < 2 ^ n := by
      have e : 2 ^ n = 2 ^ (n - 1 - v) * 2 ^ (v + 1) := by rw [← Nat.pow_add]; congr 1; omega
      have : (a + 1) * 2 ^ (v + 1) ≤ 2 ^ (n - 1 - v) * 2 ^ (v + 1) := Nat.mul_le_mul_right _ (by omega)
      rw [Nat.add_mul, Nat.one_mul] at this
      omega
    simp [hi, this]
  · simp [hi]

/-- the blocks of the high half are the second half of the blocks -/
theorem sub_hi (n v a t : Nat) (hv : v < n) : sub v a (t / P n) = sub v (a + 2 ^ (n - 1 - v)) t := by
  apply Nat.eq_of_testBit_eq
  intro i
  rw [sub_testBit, sub_testBit]
  unfold P
  rw [Nat.testBit_div_two_pow]
  have e : 2 ^ n = 2 ^ (n - 1 - v) * 2 ^ (v + 1) := by rw [← Nat.pow_add]; congr 1; omega
  have : (a + 2 ^ (n - 1 - v)) * 2 ^ (v + 1) + i = a * 2 ^ (v + 1) + i + 2 ^ n := by
    rw [Nat.add_mul, ← e]; omega
  rw [this]

/-- the blocks of the complement are the complements of the blocks -/
theorem sub_compl (n v a t : Nat) (hv : v < n) (ha : a < 2 ^ (n - 1 - v)) (ht : t < P n) :
    sub v a (compl n t) = compl (v + 1) (sub v a t) := by
  apply Nat.eq_of_testBit_eq
  intro i
  rw [sub_testBit, compl_testBit n t ht, compl_testBit (v + 1) _ (sub_lt v a t), sub_testBit]
  by_cases hi : i < 2 ^ (v + 1)
  · have : a * 2 ^ (v + 1) + i < 2 ^ n := by
      have e : 2 ^ n = 2 ^ (n - 1 - v) * 2 ^ (v + 1) := by rw [← Nat.pow_add]; congr 1; omega
      have : (a + 1) * 2 ^ (v + 1) ≤ 2 ^ (n - 1 - v) * 2 ^ (v + 1) := Nat.mul_le_mul_right _ (by omega)
      rw [Nat.add_mul, Nat.one_mul] at this
      omega
    simp [hi, this]
  · simp [hi]

theorem sub_norm (n v a t : Nat) (hv : v < n) (ha : a < 2 ^ (n - 1 - v)) (ht : t < P n) :
    norm (v + 1) (sub v a (norm n t)) = norm (v + 1) (sub v a t) := by
  unfold norm
  by_cases h : t % 2 = 1
  · rw [if_pos h, sub_compl n v a t hv ha ht]
    exact norm_compl (v + 1) _ (sub_lt v a t)
  · rw [if_neg h]

/-- the node that a block contributes -/
def nodeOf (v a t : Nat) : B := mk (v + 1) (norm (v + 1) (sub v a t))

/-- **the nodes of the BDD of a table**: one for every sub-function that depends on its top
    variable, nothing else -/
theorem mem_nodes_mk (n t : Nat) (ht : Valid n t) (b : B) :
    b ∈ nodes (mk n t) ↔ ∃ v a, v < n ∧ a < 2 ^ (n - 1 - v) ∧ dep v (norm (v + 1) (sub v a t)) ∧ b = nodeOf v a t := by
  induction n generalizing t b with
  | zero =>
    simp only [mk, nodes, List.not_mem_nil, false_iff]
    rintro ⟨v, a, hv, _⟩; omega
  | succ n ih =>
    have hlo := lo_valid n t ht
    have hhi := hi_lt n t ht
    have hnv := norm_valid n _ hhi
    -- the root block
    have hroot : sub n 0 t = t := by
      unfold sub; simp; exact Nat.mod_eq_of_lt ht.1
    -- blocks below the root, in terms of the two halves
    have split : ∀ v, v < n → ∀ a, a < 2 ^ (n - v) →
        (a < 2 ^ (n - 1 - v) ∧ sub v a t = sub v a (t % P n)) ∨
        (∃ a', a' < 2 ^ (n - 1 - v) ∧ a = a' + 2 ^ (n - 1 - v) ∧ sub v a t = sub v a' (t / P n)) := by
      intro v hv a ha
      have e : 2 ^ (n - v) = 2 ^ (n - 1 - v) + 2 ^ (n - 1 - v) := by
        have : n - v = (n - 1 - v) + 1 := by omega
        rw [this, Nat.pow_succ]; omega
      by_cases hlt : a < 2 ^ (n - 1 - v)
      · exact Or.inl ⟨hlt, (sub_lo n v a t hv hlt).symm⟩
      · refine Or.inr ⟨a - 2 ^ (n - 1 - v), by omega, by omega, ?_⟩
        rw [sub_hi n v _ t hv]
        congr 1; omega
    simp only [mk]
    by_cases heq : t % P n = t / P n
    · rw [if_pos heq, ih _ hlo]
      constructor
      · rintro ⟨v, a, hv, ha, hd, rfl⟩
        refine ⟨v, a, by omega, ?_, ?_, ?_⟩
        · have : 2 ^ (n - 1 - v) ≤ 2 ^ (n + 1 - 1 - v) := Nat.pow_le_pow_right (by omega) (by omega)
          omega
        · rw [← sub_lo n v a t hv ha]; exact hd
        · unfold nodeOf; rw [sub_lo n v a t hv ha]
      · rintro ⟨v, a, hv, ha, hd, rfl⟩
        by_cases hvn : v = n
        · rw [hvn] at ha hd ⊢
          have ha0 : a = 0 := by
            have : n + 1 - 1 - n = 0 := by omega
            rw [this] at ha; simpa using ha
          subst ha0
          rw [hroot, norm_of_valid _ _ ht] at hd
          exact absurd heq hd
        · have hv' : v < n := by omega
          have ha' : a < 2 ^ (n - v) := by
            have : n + 1 - 1 - v = n - v := by omega
            rw [this] at ha; exact ha
          rcases split v hv' a ha' with ⟨hlt, hs⟩ | ⟨a', hlt, rfl, hs⟩
          · exact ⟨v, a, hv', hlt, by rw [← hs]; exact hd, by unfold nodeOf; rw [hs]⟩
          · refine ⟨v, a', hv', hlt, ?_, ?_⟩
            · rw [heq, ← hs]; exact hd
            · unfold nodeOf; rw [heq, ← hs]
    · rw [if_neg heq]
      simp only [nodes, List.mem_cons, List.mem_append]
      rw [ih _ hlo, ih _ hnv]
      constructor
      · rintro (rfl | ⟨v, a, hv, ha, hd, rfl⟩ | ⟨v, a, hv, ha, hd, rfl⟩)
        · refine ⟨n, 0, by omega, Nat.two_pow_pos _, ?_, ?_⟩
          · rw [hroot, norm_of_valid _ _ ht]; exact heq
          · unfold nodeOf
            rw [hroot, norm_of_valid _ _ ht]
            simp only [mk, if_neg heq]
        · refine ⟨v, a, by omega, ?_, ?_, ?_⟩
          · have : 2 ^ (n - 1 - v) ≤ 2 ^ (n + 1 - 1 - v) := Nat.pow_le_pow_right (by omega) (by omega)
            omega
          · rw [← sub_lo n v a t hv ha]; exact hd
          · unfold nodeOf; rw [sub_lo n v a t hv ha]
        · rw [sub_norm n v a _ hv ha hhi] at hd
          refine ⟨v, a + 2 ^ (n - 1 - v), by omega, ?_, ?_, ?_⟩
          · have e : 2 ^ (n + 1 - 1 - v) = 2 ^ (n - 1 - v) + 2 ^ (n - 1 - v) := by
              have : n + 1 - 1 - v = (n - 1 - v) + 1 := by omega
              rw [this, Nat.pow_succ]; omega
            omega
          · rw [← sub_hi n v a t hv]; exact hd
          · unfold nodeOf
            rw [sub_norm n v a _ hv ha hhi, sub_hi n v a t hv]
      · rintro ⟨v, a, hv, ha, hd, rfl⟩
        by_cases hvn : v = n
        · rw [hvn] at ha hd ⊢
          have ha0 : a = 0 := by
            have : n + 1 - 1 - n = 0 := by omega
            rw [this] at ha; simpa using ha
          subst ha0
          left
          unfold nodeOf
          rw [hroot, norm_of_valid _ _ ht]
          simp only [mk, if_neg heq]
        · right
          have hv' : v < n := by omega
          have ha' : a < 2 ^ (n - v) := by
            have : n + 1 - 1 - v = n - v := by omega
            rw [this] at ha; exact ha
          rcases split v hv' a ha' with ⟨hlt, hs⟩ | ⟨a', hlt, rfl, hs⟩
          · left
            exact ⟨v, a, hv', hlt, by rw [← hs]; exact hd, by unfold nodeOf; rw [hs]⟩
          · right
            refine ⟨v, a', hv', hlt, ?_, ?_⟩
            · rw [sub_norm n v a' _ hv' hlt hhi, ← hs]; exact hd
            · unfold nodeOf; rw [sub_norm n v a' _ hv' hlt hhi, ← hs]



/-- a node that denotes a single literal: low edge to 0, complemented high edge to 0 -/
def isLit : B → Bool
  | .node _ .leaf .leaf true => true
  | _ => false

/-- the table of the literal x_v among the normalised tables of v+1 variables -/
def litTable (v g : Nat) : Prop := g % P v = 0 ∧ g / P v = P v - 1

instance (v g : Nat) : Decidable (litTable v g) := by unfold litTable; exact inferInstance

theorem mk_dep (v g : Nat) (hd : dep v g) :
    mk (v + 1) g = .node v (mk v (g % P v)) (mk v (norm v (g / P v))) (decide ((g / P v) % 2 = 1)) := by
  simp only [mk]
  rw [if_neg hd]

theorem isLit_mk (v g : Nat) (hv : Valid (v + 1) g) (hd : dep v g) :
    isLit (mk (v + 1) g) = true ↔ litTable v g := by
  rw [mk_dep v g hd]
  have hlo := lo_valid v g hv
  have hhi := hi_lt v g hv
  have hnv := norm_valid v _ hhi
  have hpos := P_pos v
  have hev := P_even v
  constructor
  · intro h
    unfold isLit at h
    split at h
    · rename_i heq
      injection heq with _ h1 h2 h3
      have l0 := mk_eq_leaf v _ hlo h1
      have n0 := mk_eq_leaf v _ hnv h2
      have hodd : (g / P v) % 2 = 1 := by simpa using h3
      unfold norm compl at n0
      rw [if_pos hodd] at n0
      exact ⟨l0, by omega⟩
    · cases h
  · rintro ⟨h1, h2⟩
    have hodd : (g / P v) % 2 = 1 := by rw [h2]; omega
    have hn : norm v (g / P v) = 0 := by
      unfold norm compl; rw [if_pos hodd, h2]; omega
    rw [h1, hn, mk_zero]
    simp [isLit, hodd]

/-- the sub-functions counted at level v for a list of tables of n variables -/
def Kept (n v : Nat) (ts : List Nat) (g : Nat) : Prop :=
  ∃ t ∈ ts, ∃ a, a < 2 ^ (n - 1 - v) ∧ g = norm (v + 1) (sub v a t) ∧ dep v g ∧ ¬ litTable v g

/-- a non-literal node of the shared BDD of the list -/
def SharedNode (n : Nat) (ts : List Nat) (b : B) : Prop :=
  (∃ t ∈ ts, b ∈ nodes (mk n (norm n t))) ∧ isLit b = false

theorem sharedNode_iff (n : Nat) (ts : List Nat) (hts : ∀ t ∈ ts, t < P n) (b : B) :
    SharedNode n ts b ↔ ∃ v g, v < n ∧ Kept n v ts g ∧ b = mk (v + 1) g := by
  unfold SharedNode Kept
  constructor
  · rintro ⟨⟨t, ht, hb⟩, hl⟩
    rw [mem_nodes_mk n _ (norm_valid n t (hts t ht))] at hb
    obtain ⟨v, a, hv, ha, hd, rfl⟩ := hb
    simp only [nodeOf] at hl ⊢
    rw [sub_norm n v a t hv ha (hts t ht)] at hd hl ⊢
    refine ⟨v, _, hv, ⟨t, ht, a, ha, rfl, hd, ?_⟩, rfl⟩
    intro hlit
    have := (isLit_mk v _ (norm_valid _ _ (sub_lt v a t)) hd).mpr hlit
    rw [this] at hl; cases hl
  · rintro ⟨v, g, hv, ⟨t, ht, a, ha, rfl, hd, hnl⟩, rfl⟩
    refine ⟨⟨t, ht, ?_⟩, ?_⟩
    · rw [mem_nodes_mk n _ (norm_valid n t (hts t ht))]
      refine ⟨v, a, hv, ha, ?_, ?_⟩
      · rw [sub_norm n v a t hv ha (hts t ht)]; exact hd
      · unfold nodeOf; rw [sub_norm n v a t hv ha (hts t ht)]
    · cases h : isLit (mk (v + 1) (norm (v + 1) (sub v a t)))
      · rfl
      · exact absurd ((isLit_mk v _ (norm_valid _ _ (sub_lt v a t)) hd).mp h) hnl

/-- level 0 has only the literal -/
theorem kept_zero (n : Nat) (ts : List Nat) (g : Nat) : ¬ Kept n 0 ts g := by
  rintro ⟨t, _, a, _, hg, hd, hnl⟩
  apply hnl
  have hv : Valid (0 + 1) g := by rw [hg]; exact norm_valid _ _ (sub_lt 0 a t)
  have h1 := hv.1
  have h2 := hv.2
  unfold dep at hd
  unfold litTable
  have hP1 : P (0 + 1) = 4 := by decide
  have hP0 : P 0 = 2 := by decide
  rw [hP1] at h1
  rw [hP0] at hd ⊢
  omega

/-- the label of the node of a kept sub-function -/
theorem kept_label (n v : Nat) (ts : List Nat) (g : Nat) (h : Kept n v ts g) :
    ∃ lo hi c, mk (v + 1) g = .node v lo hi c := by
  obtain ⟨_, _, _, _, _, hd, _⟩ := h
  exact ⟨_, _, _, mk_dep v g hd⟩

theorem kept_valid (n v : Nat) (ts : List Nat) (g : Nat) (h : Kept n v ts g) : Valid (v + 1) g := by
  obtain ⟨t, _, a, _, rfl, _, _⟩ := h
  exact norm_valid _ _ (sub_lt v a t)

/-- **counting the shared BDD level by level**: given, for every level v = 1..n-1, a
    duplicate-free list of exactly the kept sub-functions of that level, the nodes they denote form a
    duplicate-free list of exactly the non-literal nodes of the shared BDD; its length is the sum
    of the lengths -/
theorem shared_count (n : Nat) (ts : List Nat) (hts : ∀ t ∈ ts, t < P n) (G : Nat → List Nat)
    (hnd : ∀ v, 1 ≤ v → v < n → (G v).Nodup)
    (hmem : ∀ v, 1 ≤ v → v < n → ∀ g, g ∈ G v ↔ Kept n v ts g) :
    let L := (List.range' 1 (n - 1)).flatMap (fun v => (G v).map (mk (v + 1)))
    L.Nodup ∧ (∀ b, b ∈ L ↔ SharedNode n ts b) ∧
      L.length = ((List.range' 1 (n - 1)).map (fun v => (G v).length)).sum := by
  intro L
  have hrange : ∀ v, v ∈ List.range' 1 (n - 1) ↔ 1 ≤ v ∧ v < n := by
    intro v; rw [List.mem_range'_1]; omega
  refine ⟨?_, ?_, ?_⟩
  · -- no duplicates: injective inside a level, different labels across levels
    show ((List.range' 1 (n - 1)).flatMap (fun v => (G v).map (mk (v + 1)))).Nodup
    unfold List.Nodup
    rw [List.pairwise_flatMap]
    refine ⟨?_, ?_⟩
    · intro v hv
      obtain ⟨h1, h2⟩ := (hrange v).mp hv
      rw [List.pairwise_map]
      have hn := hnd v h1 h2
      unfold List.Nodup at hn
      refine List.Pairwise.imp_of_mem ?_ hn
      intro a b ha hb hne e
      exact hne (mk_inj (v + 1) a b (kept_valid n v ts a ((hmem v h1 h2 a).mp ha))
        (kept_valid n v ts b ((hmem v h1 h2 b).mp hb)) e)
    · have hlt : (List.range' 1 (n - 1)).Pairwise (· < ·) := List.pairwise_lt_range'
      refine List.Pairwise.imp_of_mem ?_ hlt
      intro v w hv hw hvw x hx y hy e
      obtain ⟨v1, v2⟩ := (hrange v).mp hv
      obtain ⟨w1, w2⟩ := (hrange w).mp hw
      obtain ⟨g, hg, rfl⟩ := List.mem_map.mp hx
      obtain ⟨g', hg', rfl⟩ := List.mem_map.mp hy
      obtain ⟨lo, hi, c, e1⟩ := kept_label n v ts g ((hmem v v1 v2 g).mp hg)
      obtain ⟨lo', hi', c', e2⟩ := kept_label n w ts g' ((hmem w w1 w2 g').mp hg')
      rw [e1, e2] at e
      injection e with hvw' _ _ _
      omega
  · intro b
    show b ∈ (List.range' 1 (n - 1)).flatMap (fun v => (G v).map (mk (v + 1))) ↔ SharedNode n ts b
    rw [sharedNode_iff n ts hts b, List.mem_flatMap]
    constructor
    · rintro ⟨v, hv, hb⟩
      obtain ⟨h1, h2⟩ := (hrange v).mp hv
      obtain ⟨g, hg, rfl⟩ := List.mem_map.mp hb
      exact ⟨v, g, h2, (hmem v h1 h2 g).mp hg, rfl⟩
    · rintro ⟨v, g, hv, hk, rfl⟩
      have h1 : 1 ≤ v := by
        cases v with
        | zero => exact absurd hk (kept_zero n ts g)
        | succ v => omega
      exact ⟨v, (hrange v).mpr ⟨h1, hv⟩, List.mem_map.mpr ⟨g, (hmem v h1 hv g).mpr hk, rfl⟩⟩
  · show ((List.range' 1 (n - 1)).flatMap (fun v => (G v).map (mk (v + 1)))).length = _
    rw [List.length_flatMap]
    congr 1
    apply List.map_congr_left
    intro v _
    simp

end VoluteModel.Robdd

import VoluteModel.Lemmas.SeqCore

/-!
# The run-time swap generator (`generate_swaps`), for every number of variables

`generate_single_swap_permutations(n)` lists the n! permutations of 0..n-1 so that consecutive
ones - and the last and the first - differ by one adjacent transposition (a Steinhaus-Johnson-
Trotter order); `find_permutation_swap` recovers the position of each transposition;
`generate_swaps(n, true)` is therefore a closed Hamiltonian walk of the symmetric group by adjacent
transpositions.  Proved here for every n >= 2 about the faithful model of the Rust functions
(`Model/CanonGen.lean`), by induction on n along the recursion of the generator
(`walk_succ`: inserting the new element at every position, alternately upwards and downwards,
keeps the walk property).  With this the P and NPN canonization theorems need no kernel
evaluation of generated sequences at all (n = 7 took a minute, n = 8 nine minutes and 31 GB).
-/

namespace VoluteModel


theorem insertAt_length (x : Nat) (j : Nat) (l : List Nat) : (insertAt x j l).length = l.length + 1 := by
  induction j generalizing l with
  | zero => simp [insertAt]
  | succ j ih =>
    cases l with
    | nil => simp [insertAt]
    | cons a l => simp [insertAt, ih]

theorem swapAdjL_invol (s : Nat) (l : List Nat) : swapAdjL s (swapAdjL s l) = l := by
  induction s generalizing l with
  | zero =>
    match l with
    | [] => rfl
    | [_] => rfl
    | _ :: _ :: _ => rfl
  | succ s ih =>
    match l with
    | [] => rfl
    | a :: r => simp [swapAdjL, ih]

/-- moving the inserted element one position up is an adjacent swap -/
theorem swap_insert_up (x : Nat) (j : Nat) (l : List Nat) (hj : j < l.length) :
    swapAdjL j (insertAt x j l) = insertAt x (j + 1) l := by
  induction j generalizing l with
  | zero =>
    match l, hj with
    | a :: r, _ => simp [insertAt, swapAdjL]
  | succ j ih =>
    match l, hj with
    | a :: r, hj =>
      simp only [insertAt, swapAdjL]
      rw [ih r (by simpa using hj)]

theorem swap_insert_down (x : Nat) (j : Nat) (l : List Nat) (hj : j < l.length) :
    swapAdjL j (insertAt x (j + 1) l) = insertAt x j l := by
  rw [← swap_insert_up x j l hj, swapAdjL_invol]

theorem insertAt_end (x : Nat) (l : List Nat) : insertAt x l.length l = l ++ [x] := by
  induction l with
  | nil => rfl
  | cons a l ih => simp [insertAt, ih]

theorem swapAdjL_append (s : Nat) (l : List Nat) (x : Nat) (hs : s + 1 < l.length) :
    swapAdjL s (l ++ [x]) = swapAdjL s l ++ [x] := by
  induction s generalizing l with
  | zero =>
    match l, hs with
    | a :: b :: r, _ => simp [swapAdjL]
  | succ s ih =>
    match l, hs with
    | a :: r, hs =>
      simp only [List.cons_append, swapAdjL]
      rw [ih r (by simpa using hs)]

theorem insertAt_perm (x : Nat) (j : Nat) (l : List Nat) : (insertAt x j l).Perm (x :: l) := by
  induction j generalizing l with
  | zero => exact List.Perm.refl _
  | succ j ih =>
    cases l with
    | nil => exact List.Perm.refl _
    | cons a l =>
      simp only [insertAt]
      exact ((ih l).cons a).trans (List.Perm.swap x a l)

theorem insertAt_filter (x : Nat) (j : Nat) (l : List Nat) (hx : x ∉ l) :
    (insertAt x j l).filter (· != x) = l := by
  induction j generalizing l with
  | zero =>
    simp only [insertAt, List.filter_cons]
    simp only [bne_self_eq_false, Bool.false_eq_true, if_false]
    rw [List.filter_eq_self]
    intro a ha
    simp only [bne_iff_ne, ne_eq]
    intro e; subst e; exact hx ha
  | succ j ih =>
    cases l with
    | nil => simp [insertAt]
    | cons a l =>
      have hax : a ≠ x := fun e => hx (by simp [e])
      have hx' : x ∉ l := fun h => hx (by simp [h])
      simp only [insertAt, List.filter_cons]
      have : (a != x) = true := by simpa using hax
      rw [if_pos this, ih l hx']

theorem insertAt_idxOf (x : Nat) (j : Nat) (l : List Nat) (hx : x ∉ l) (hj : j ≤ l.length) :
    (insertAt x j l).idxOf x = j := by
  induction j generalizing l with
  | zero => simp [insertAt]
  | succ j ih =>
    cases l with
    | nil => simp at hj
    | cons a l =>
      have hax : a ≠ x := fun e => hx (by simp [e])
      have hx' : x ∉ l := fun h => hx (by simp [h])
      simp only [insertAt]
      rw [List.idxOf_cons]
      have : (a == x) = false := by simpa using hax
      rw [this]
      simp only [cond_false]
      rw [ih l hx' (by simpa using hj)]

/-- position of the inserted element in block i, offset j, for lists of length m -/
def posOf (m i j : Nat) : Nat := if i % 2 = 0 then j else m - j

theorem insertionsUp_getElem (x : Nat) (cur : List Nat) (j : Nat) (hj : j ≤ cur.length) :
    (insertionsUp x cur)[j]? = some (insertAt x j cur) := by
  unfold insertionsUp
  rw [List.getElem?_map, List.getElem?_range (by omega)]
  rfl

theorem block_getElem (x : Nat) (cur : List Nat) (i j : Nat) (hj : j ≤ cur.length) :
    (if i % 2 = 0 then insertionsUp x cur else (insertionsUp x cur).reverse)[j]? =
      some (insertAt x (posOf cur.length i j) cur) := by
  unfold posOf
  by_cases h : i % 2 = 0
  · rw [if_pos h, if_pos h]; exact insertionsUp_getElem x cur j hj
  · rw [if_neg h, if_neg h]
    have hl : (insertionsUp x cur).length = cur.length + 1 := by simp [insertionsUp]
    rw [List.getElem?_reverse (by rw [hl]; omega), hl]
    rw [show cur.length + 1 - 1 - j = cur.length - j by omega]
    exact insertionsUp_getElem x cur _ (by omega)

theorem block_length (x : Nat) (cur : List Nat) (i : Nat) :
    (if i % 2 = 0 then insertionsUp x cur else (insertionsUp x cur).reverse).length = cur.length + 1 := by
  split <;> simp [insertionsUp]

theorem sjtLevel_length (x m : Nat) (Ps : List (List Nat)) (hm : ∀ P ∈ Ps, P.length = m) (i0 : Nat) :
    (sjtLevel x Ps i0).length = Ps.length * (m + 1) := by
  induction Ps generalizing i0 with
  | nil => simp [sjtLevel]
  | cons cur rest ih =>
    simp only [sjtLevel, List.length_append, block_length, List.length_cons]
    rw [ih (fun P hP => hm P (by simp [hP])), hm cur (by simp), Nat.succ_mul]
    omega

/-- element k of one level: block k / (m+1), offset k % (m+1) -/
theorem sjtLevel_getElem (x m : Nat) (Ps : List (List Nat)) (hm : ∀ P ∈ Ps, P.length = m) (i0 k : Nat)
    (hk : k < Ps.length * (m + 1)) :
    ∃ P, Ps[k / (m + 1)]? = some P ∧
      (sjtLevel x Ps i0)[k]? = some (insertAt x (posOf m (i0 + k / (m + 1)) (k % (m + 1))) P) := by
  induction Ps generalizing i0 k with
  | nil => simp at hk
  | cons cur rest ih =>
    have hcur := hm cur (by simp)
    simp only [sjtLevel]
    by_cases hlt : k < m + 1
    · have h0 : k / (m + 1) = 0 := Nat.div_eq_of_lt hlt
      have h1 : k % (m + 1) = k := Nat.mod_eq_of_lt hlt
      refine ⟨cur, by rw [h0]; rfl, ?_⟩
      rw [List.getElem?_append_left (by rw [block_length, hcur]; exact hlt), h0, h1, Nat.add_zero,
        block_getElem x cur i0 k (by omega), hcur]
    · have hk' : k - (m + 1) < rest.length * (m + 1) := by
        simp only [List.length_cons, Nat.succ_mul] at hk; omega
      obtain ⟨P, hP, hget⟩ := ih (fun P hP => hm P (by simp [hP])) (i0 + 1) (k - (m + 1)) hk'
      have hd : k / (m + 1) = (k - (m + 1)) / (m + 1) + 1 := by
        have : k = (k - (m + 1)) + (m + 1) := by omega
        conv => lhs; rw [this]
        rw [Nat.add_div_right _ (by omega)]
      have hmod : k % (m + 1) = (k - (m + 1)) % (m + 1) := by
        have : k = (k - (m + 1)) + (m + 1) := by omega
        conv => lhs; rw [this]
        rw [Nat.add_mod_right]
      refine ⟨P, by rw [hd, List.getElem?_cons_succ]; exact hP, ?_⟩
      rw [List.getElem?_append_right (by rw [block_length, hcur]; omega), block_length, hcur, hget, hd, hmod]
      congr 3
      omega



/-- a list of permutations of 0..n-1 that is a closed walk by adjacent transpositions through
    n! distinct permutations -/
structure Walk (n : Nat) (Ps : List (List Nat)) : Prop where
  len : Ps.length = factL n
  even : Ps.length % 2 = 0
  perm : ∀ P ∈ Ps, P.Perm (List.range n)
  nodup : Ps.Nodup
  step : ∀ k P Q, Ps[k]? = some P → Ps[(k + 1) % Ps.length]? = some Q → ∃ s, s + 1 < n ∧ Q = swapAdjL s P

theorem factL_pos (n : Nat) : 0 < factL n := by
  induction n with
  | zero => decide
  | succ n ih => simp only [factL]; exact Nat.mul_pos (by omega) ih

theorem perm_length {n : Nat} {P : List Nat} (h : P.Perm (List.range n)) : P.length = n := by
  rw [h.length_eq]; simp

theorem perm_not_mem {n : Nat} {P : List Nat} (h : P.Perm (List.range n)) : n ∉ P := by
  intro hm
  have := h.mem_iff.mp hm
  simp at this

theorem insert_perm_succ {n : Nat} {P : List Nat} (h : P.Perm (List.range n)) (j : Nat) :
    (insertAt n j P).Perm (List.range (n + 1)) := by
  refine (insertAt_perm n j P).trans ?_
  rw [List.range_succ]
  exact ((h.cons n).trans (List.perm_append_singleton n (List.range n)).symm)

/-- the element at index k of the next level -/
def nextElem (n : Nat) (Ps : List (List Nat)) (k : Nat) : List Nat :=
  insertAt n (posOf n (k / (n + 1)) (k % (n + 1))) (Ps[k / (n + 1)]?.getD [])

theorem level_getElem (n : Nat) (Ps : List (List Nat)) (hperm : ∀ P ∈ Ps, P.Perm (List.range n)) (k : Nat)
    (hk : k < Ps.length * (n + 1)) : (sjtLevel n Ps 0)[k]? = some (nextElem n Ps k) := by
  obtain ⟨P, hP, hget⟩ := sjtLevel_getElem n n Ps (fun P hP => perm_length (hperm P hP)) 0 k hk
  rw [hget]
  unfold nextElem
  rw [hP, Nat.zero_add]
  rfl

theorem div_lt_of_lt_mul {k L m : Nat} (h : k < L * m) : k / m < L := by
  by_cases hm : m = 0
  · subst hm; simp at h
  · exact (Nat.div_lt_iff_lt_mul (Nat.pos_of_ne_zero hm)).mpr h

/-- one level of the generator keeps the walk property -/
theorem walk_succ (n : Nat) (h2 : 2 ≤ n) (Ps : List (List Nat)) (w : Walk n Ps) : Walk (n + 1) (sjtLevel n Ps 0) := by
  have hlenP : ∀ P ∈ Ps, P.length = n := fun P hP => perm_length (w.perm P hP)
  have hL : (sjtLevel n Ps 0).length = Ps.length * (n + 1) := sjtLevel_length n n Ps hlenP 0
  have hLpos : 0 < Ps.length := by rw [w.len]; exact factL_pos n
  have hget := level_getElem n Ps w.perm
  have hblock : ∀ k, k < Ps.length * (n + 1) → ∃ P, Ps[k / (n + 1)]? = some P ∧ P ∈ Ps := by
    intro k hk
    have : k / (n + 1) < Ps.length := div_lt_of_lt_mul hk
    exact ⟨Ps[k / (n + 1)], List.getElem?_eq_getElem this, List.getElem_mem this⟩
  refine ⟨?_, ?_, ?_, ?_, ?_⟩
  · rw [hL, w.len]; simp only [factL]; exact Nat.mul_comm _ _
  · rw [hL]
    have := w.even
    rw [Nat.mul_mod, this]; simp
  · intro Q hQ
    obtain ⟨k, hk, rfl⟩ := List.getElem_of_mem hQ
    rw [hL] at hk
    have := hget k hk
    rw [List.getElem?_eq_getElem (by rw [hL]; exact hk)] at this
    rw [Option.some.inj this]
    obtain ⟨P, hP, hPm⟩ := hblock k hk
    unfold nextElem
    rw [hP]
    exact insert_perm_succ (w.perm P hPm) _
  · -- distinct: the block is recovered by deleting n, the offset by the position of n
    have hmap : sjtLevel n Ps 0 = (List.range (Ps.length * (n + 1))).map (nextElem n Ps) := by
      apply List.ext_getElem?
      intro k
      by_cases hk : k < Ps.length * (n + 1)
      · rw [hget k hk]; simp [hk]
      · rw [List.getElem?_eq_none (by rw [hL]; omega), List.getElem?_eq_none (by simp; omega)]
    rw [hmap]
    unfold List.Nodup
    rw [List.pairwise_map]
    refine List.Pairwise.imp_of_mem ?_ (List.nodup_range (n := Ps.length * (n + 1)))
    intro a b ha hb hne e
    apply hne
    have ha' := List.mem_range.mp ha
    have hb' := List.mem_range.mp hb
    obtain ⟨P, hP, hPm⟩ := hblock a ha'
    obtain ⟨Q, hQ, hQm⟩ := hblock b hb'
    unfold nextElem at e
    rw [hP, hQ] at e
    simp only [Option.getD_some] at e
    have hnP := perm_not_mem (w.perm P hPm)
    have hnQ := perm_not_mem (w.perm Q hQm)
    have e1 := congrArg (fun l => l.filter (· != n)) e
    simp only [insertAt_filter n _ P hnP, insertAt_filter n _ Q hnQ] at e1
    -- same block
    have hi : a / (n + 1) = b / (n + 1) := by
      have hA : a / (n + 1) < Ps.length := div_lt_of_lt_mul ha'
      have hB : b / (n + 1) < Ps.length := div_lt_of_lt_mul hb'
      rw [List.getElem?_eq_getElem hA] at hP
      rw [List.getElem?_eq_getElem hB] at hQ
      have : Ps[a / (n + 1)] = Ps[b / (n + 1)] := by
        rw [Option.some.inj hP, Option.some.inj hQ, e1]
      exact (List.getElem_inj w.nodup).mp this
    -- same offset
    have hja : a % (n + 1) ≤ n := by have := Nat.mod_lt a (show 0 < n + 1 by omega); omega
    have hjb : b % (n + 1) ≤ n := by have := Nat.mod_lt b (show 0 < n + 1 by omega); omega
    have e2 := congrArg (fun l => l.idxOf n) e
    have pa : posOf n (a / (n + 1)) (a % (n + 1)) ≤ P.length := by
      rw [hlenP P hPm]; unfold posOf; split <;> omega
    have pb : posOf n (b / (n + 1)) (b % (n + 1)) ≤ Q.length := by
      rw [hlenP Q hQm]; unfold posOf; split <;> omega
    simp only [insertAt_idxOf n _ P hnP pa, insertAt_idxOf n _ Q hnQ pb] at e2
    rw [hi] at e2
    have hj : a % (n + 1) = b % (n + 1) := by
      unfold posOf at e2
      split at e2 <;> omega
    have := Nat.div_add_mod a (n + 1)
    have := Nat.div_add_mod b (n + 1)
    rw [hi] at *
    omega
  · -- consecutive elements differ by an adjacent transposition
    intro k P' Q' hP' hQ'
    have hkL : k < Ps.length * (n + 1) := by
      have : k < (sjtLevel n Ps 0).length := by
        by_cases h : k < (sjtLevel n Ps 0).length
        · exact h
        · rw [List.getElem?_eq_none (by omega)] at hP'; cases hP'
      rw [hL] at this; exact this
    rw [hget k hkL] at hP'
    have hP'e : P' = nextElem n Ps k := (Option.some.inj hP').symm
    rw [hL] at hQ'
    have hk1L : (k + 1) % (Ps.length * (n + 1)) < Ps.length * (n + 1) :=
      Nat.mod_lt _ (Nat.mul_pos hLpos (by omega))
    rw [hget _ hk1L] at hQ'
    have hQ'e : Q' = nextElem n Ps ((k + 1) % (Ps.length * (n + 1))) := (Option.some.inj hQ').symm
    obtain ⟨P, hP, hPm⟩ := hblock k hkL
    have hPl := hlenP P hPm
    have hi : k / (n + 1) < Ps.length := div_lt_of_lt_mul hkL
    have hdm : k / (n + 1) * (n + 1) + k % (n + 1) = k := by
      rw [Nat.mul_comm]; exact Nat.div_add_mod k (n + 1)
    have hjlt : k % (n + 1) < n + 1 := Nat.mod_lt _ (by omega)
    by_cases hj : k % (n + 1) < n
    · -- inside a block
      have hk1 : k + 1 < Ps.length * (n + 1) := by
        have : (k / (n + 1) + 1) * (n + 1) ≤ Ps.length * (n + 1) := Nat.mul_le_mul_right _ (by omega)
        rw [Nat.add_mul, Nat.one_mul] at this
        omega
      have hmod : (k + 1) % (Ps.length * (n + 1)) = k + 1 := Nat.mod_eq_of_lt hk1
      have hd1 : (k + 1) / (n + 1) = k / (n + 1) := by
        apply Nat.div_eq_of_lt_le
        · omega
        · rw [Nat.add_mul, Nat.one_mul]; omega
      have hm1 : (k + 1) % (n + 1) = k % (n + 1) + 1 := by
        have h1 : (k + 1) / (n + 1) * (n + 1) + (k + 1) % (n + 1) = k + 1 := by
          rw [Nat.mul_comm]; exact Nat.div_add_mod (k + 1) (n + 1)
        rw [hd1] at h1
        omega
      rw [hQ'e, hP'e, hmod]
      unfold nextElem
      rw [hd1, hm1, hP]
      simp only [Option.getD_some]
      unfold posOf
      by_cases hpar : k / (n + 1) % 2 = 0
      · rw [if_pos hpar, if_pos hpar]
        exact ⟨k % (n + 1), by omega, (swap_insert_up n _ P (by rw [hPl]; exact hj)).symm⟩
      · rw [if_neg hpar, if_neg hpar]
        refine ⟨n - (k % (n + 1) + 1), by omega, ?_⟩
        have : n - k % (n + 1) = n - (k % (n + 1) + 1) + 1 := by omega
        rw [this]
        exact (swap_insert_down n _ P (by rw [hPl]; omega)).symm
    · -- from the last element of a block to the first of the next block (cyclically)
      have hjn : k % (n + 1) = n := by omega
      -- index of the next element and of its block
      have hnext : (k + 1) % (Ps.length * (n + 1)) = ((k / (n + 1) + 1) % Ps.length) * (n + 1) := by
        have hk1 : k + 1 = (k / (n + 1) + 1) * (n + 1) := by rw [Nat.add_mul, Nat.one_mul]; omega
        rw [hk1]
        by_cases hw : k / (n + 1) + 1 < Ps.length
        · rw [Nat.mod_eq_of_lt hw, Nat.mod_eq_of_lt (Nat.mul_lt_mul_of_pos_right hw (by omega))]
        · have : k / (n + 1) + 1 = Ps.length := by omega
          rw [this, Nat.mod_self, Nat.mod_self, Nat.zero_mul]
      have hi' : (k / (n + 1) + 1) % Ps.length < Ps.length := Nat.mod_lt _ hLpos
      have hd1 : ((k / (n + 1) + 1) % Ps.length) * (n + 1) / (n + 1) = (k / (n + 1) + 1) % Ps.length :=
        Nat.mul_div_cancel _ (by omega)
      have hm1 : ((k / (n + 1) + 1) % Ps.length) * (n + 1) % (n + 1) = 0 := Nat.mul_mod_left _ _
      -- the two blocks are consecutive in the walk below
      obtain ⟨s, hs, hQP⟩ := w.step (k / (n + 1)) P (Ps[(k / (n + 1) + 1) % Ps.length]) hP
        (List.getElem?_eq_getElem hi')
      rw [hQ'e, hP'e, hnext]
      unfold nextElem
      rw [hd1, hm1, hjn, hP, List.getElem?_eq_getElem hi', hQP]
      simp only [Option.getD_some]
      -- parities: the number of blocks is even
      have hparity : ((k / (n + 1) + 1) % Ps.length) % 2 = (k / (n + 1) + 1) % 2 := by
        have he := w.even
        by_cases hw : k / (n + 1) + 1 < Ps.length
        · rw [Nat.mod_eq_of_lt hw]
        · have : k / (n + 1) + 1 = Ps.length := by omega
          rw [this, Nat.mod_self, he]
      unfold posOf
      by_cases hpar : k / (n + 1) % 2 = 0
      · have hpar' : ¬ ((k / (n + 1) + 1) % Ps.length) % 2 = 0 := by rw [hparity]; omega
        rw [if_pos hpar, if_neg hpar', Nat.sub_zero]
        refine ⟨s, by omega, ?_⟩
        have e1 : insertAt n n P = P ++ [n] := by
          have := insertAt_end n P; rw [hPl] at this; exact this
        have e2 : insertAt n n (swapAdjL s P) = swapAdjL s P ++ [n] := by
          have := insertAt_end n (swapAdjL s P); rw [swapAdjL_length, hPl] at this; exact this
        rw [e1, e2, swapAdjL_append s P n (by rw [hPl]; exact hs)]
      · have hpar' : ((k / (n + 1) + 1) % Ps.length) % 2 = 0 := by rw [hparity]; omega
        rw [if_neg hpar, if_pos hpar', Nat.sub_self]
        exact ⟨s + 1, by omega, rfl⟩



theorem walk_two : Walk 2 [[1, 0], [0, 1]] := by
  refine ⟨by decide, by decide, ?_, by decide, ?_⟩
  · intro P hP
    simp only [List.mem_cons, List.not_mem_nil, or_false] at hP
    rcases hP with rfl | rfl
    · exact List.Perm.swap 0 1 []
    · exact List.Perm.refl _
  · intro k P Q hP hQ
    match k with
    | 0 => simp at hP hQ; subst hP; subst hQ; exact ⟨0, by omega, rfl⟩
    | 1 => simp at hP hQ; subst hP; subst hQ; exact ⟨0, by omega, rfl⟩
    | k + 2 => simp at hP

/-- the generated list of permutations is a closed walk by adjacent transpositions through all
    n! permutations, for every n >= 2 -/
theorem gen_walk (n : Nat) (h2 : 2 ≤ n) : Walk n (generateSingleSwapPermutations n) := by
  induction n with
  | zero => omega
  | succ n ih =>
    match n, h2, ih with
    | 1, _, _ => exact walk_two
    | n + 2, _, ih =>
      have := walk_succ (n + 2) (by omega) _ (ih (by omega))
      exact this

/-! ## `find_permutation_swap` finds the transposition -/

theorem firstDiff_cons_same (c : Nat) (x : Nat) (xs : List Nat) (y : Nat) (ys : List Nat) (i : Nat) :
    firstDiff (c :: x :: xs) (c :: y :: ys) i = firstDiff (x :: xs) (y :: ys) (i + 1) := by
  rw [firstDiff]
  simp

theorem firstDiff_swap (pre : List Nat) (a b : Nat) (post : List Nat) (hab : a ≠ b) (i : Nat) :
    firstDiff (pre ++ a :: b :: post) (pre ++ b :: a :: post) i = some (i + pre.length) := by
  induction pre generalizing i with
  | nil =>
    simp only [List.nil_append, List.length_nil, Nat.add_zero]
    rw [firstDiff]
    have : (a != b) = true := by simpa using hab
    simp [this]
  | cons c pre ih =>
    simp only [List.cons_append, List.length_cons]
    cases hp : pre ++ a :: b :: post with
    | nil => simp at hp
    | cons x xs =>
      cases hq : pre ++ b :: a :: post with
      | nil => simp at hq
      | cons y ys =>
        rw [firstDiff_cons_same, ← hp, ← hq, ih (i + 1)]
        congr 1; omega

/-- a list with two adjacent entries exchanged, as an append -/
theorem swapAdjL_split (s : Nat) (l : List Nat) (hs : s + 1 < l.length) :
    ∃ pre a b post, l = pre ++ a :: b :: post ∧ swapAdjL s l = pre ++ b :: a :: post ∧ pre.length = s ∧
      l[s]? = some a ∧ l[s + 1]? = some b := by
  induction s generalizing l with
  | zero =>
    match l, hs with
    | a :: b :: r, _ => exact ⟨[], a, b, r, rfl, rfl, rfl, rfl, rfl⟩
  | succ s ih =>
    match l, hs with
    | c :: r, hs =>
      obtain ⟨pre, a, b, post, h1, h2, h3, h4, h5⟩ := ih r (by simpa using hs)
      refine ⟨c :: pre, a, b, post, by rw [h1]; rfl, by simp only [swapAdjL]; rw [h2]; rfl, by simp [h3], ?_, ?_⟩
      · simpa using h4
      · simpa using h5

theorem findSwap_spec (p : List Nat) (hnd : p.Nodup) (s : Nat) (hs : s + 1 < p.length) :
    findPermutationSwap p (swapAdjL s p) = some s := by
  obtain ⟨pre, a, b, post, h1, h2, h3, h4, h5⟩ := swapAdjL_split s p hs
  have hab : a ≠ b := by
    intro e
    subst e
    rw [h1] at hnd
    have := (List.nodup_append.mp hnd).2.1
    simp at this
  unfold findPermutationSwap
  have hlen : (p.length != (swapAdjL s p).length) = false := by simp [swapAdjL_length]
  rw [hlen]
  simp only [Bool.false_eq_true, if_false]
  have hfd : firstDiff p (swapAdjL s p) 0 = some s := by
    rw [h2]
    conv => lhs; arg 1; rw [h1]
    rw [firstDiff_swap pre a b post hab 0, h3, Nat.zero_add]
  rw [hfd]
  simp only []
  have hchk : checkPermutationSwap p (swapAdjL s p) s = true := by
    unfold checkPermutationSwap
    simp only [swapAdjL_length, beq_self_eq_true, Bool.true_and, Bool.and_eq_true, List.all_eq_true,
      List.mem_range, decide_eq_true_eq, Bool.or_eq_true, beq_iff_eq]
    refine ⟨⟨⟨?_, hs⟩, ?_⟩, ?_⟩
    · intro i _
      by_cases h : i = s ∨ i = s + 1
      · left; exact h
      · right
        rw [swapAdjL_getElem? s p hs i]
        have n1 : ¬ s + 1 = i := fun e => h (Or.inr e.symm)
        have n2 : ¬ s = i := fun e => h (Or.inl e.symm)
        simp [n1, n2]
    · rw [swapAdjL_getElem? s p hs (s + 1)]; simp
    · rw [swapAdjL_getElem? s p hs s]; simp
  rw [hchk]
  simp



theorem consec_spec (n : Nat) (Ps : List (List Nat)) (hnd : ∀ P ∈ Ps, P.Nodup ∧ P.length = n)
    (hstep : ∀ k P Q, Ps[k]? = some P → Ps[k + 1]? = some Q → ∃ s, s + 1 < n ∧ Q = swapAdjL s P) :
    ∃ sw, consecutiveSwaps Ps = some sw ∧ sw.length = Ps.length - 1 ∧
      ∀ k P Q, Ps[k]? = some P → Ps[k + 1]? = some Q → ∃ s, sw[k]? = some s ∧ s + 1 < n ∧ Q = swapAdjL s P := by
  induction Ps with
  | nil => exact ⟨[], rfl, rfl, by intro k P Q h; simp at h⟩
  | cons p rest ih =>
    cases rest with
    | nil => exact ⟨[], rfl, rfl, by intro k P Q _ h; simp at h⟩
    | cons q rest =>
      obtain ⟨s, hs, hq⟩ := hstep 0 p q rfl rfl
      obtain ⟨ss, hss, hlen, hall⟩ := ih (fun P hP => hnd P (by simp [hP]))
        (fun k P Q hP hQ => hstep (k + 1) P Q (by simpa using hP) (by simpa using hQ))
      have hp := hnd p (by simp)
      have hf : findPermutationSwap p q = some s := by
        rw [hq]; exact findSwap_spec p hp.1 s (by rw [hp.2]; exact hs)
      refine ⟨s :: ss, by simp only [consecutiveSwaps, hf, hss], by simp [hlen], ?_⟩
      intro k P Q hP hQ
      cases k with
      | zero =>
        simp only [List.getElem?_cons_zero, List.getElem?_cons_succ] at hP hQ
        cases hP; cases hQ
        exact ⟨s, rfl, hs, hq⟩
      | succ k =>
        obtain ⟨s', h1, h2, h3⟩ := hall k P Q (by simpa using hP) (by simpa using hQ)
        exact ⟨s', by simpa using h1, h2, h3⟩

/-- what `generate_swaps(n, true)` returns for n >= 2: one position per permutation of the walk,
    valid, and taking each permutation to the next one (cyclically) -/
theorem generateSwaps_spec (n : Nat) (h2 : 2 ≤ n) :
    ∃ sw, generateSwaps n true = some sw ∧ sw.length = factL n ∧
      ∀ k P Q, (generateSingleSwapPermutations n)[k]? = some P →
        (generateSingleSwapPermutations n)[(k + 1) % factL n]? = some Q →
        ∃ s, sw[k]? = some s ∧ s + 1 < n ∧ Q = swapAdjL s P := by
  have w := gen_walk n h2
  generalize hPs : generateSingleSwapPermutations n = Ps at w
  have hL2 : 2 ≤ Ps.length := by
    rw [w.len]
    have : factL 2 ≤ factL n := by
      clear hPs w
      induction n with
      | zero => omega
      | succ n ih =>
        by_cases h : n = 1
        · subst h; exact Nat.le_refl _
        · have := ih (by omega)
          simp only [factL] at this ⊢
          calc factL 2 ≤ factL n := ih (by omega)
            _ ≤ (n + 1) * factL n := Nat.le_mul_of_pos_left _ (by omega)
    have e : factL 2 = 2 := by decide
    omega
  have hnd : ∀ P ∈ Ps, P.Nodup ∧ P.length = n := by
    intro P hP
    exact ⟨(w.perm P hP).nodup_iff.mpr List.nodup_range, perm_length (w.perm P hP)⟩
  obtain ⟨sw0, hc, hlen0, hall0⟩ := consec_spec n Ps hnd (by
    intro k P Q hP hQ
    have hk1 : k + 1 < Ps.length := by
      by_cases h : k + 1 < Ps.length
      · exact h
      · rw [List.getElem?_eq_none (by omega)] at hQ; cases hQ
    exact w.step k P Q hP (by rw [Nat.mod_eq_of_lt hk1]; exact hQ))
  -- the closing swap
  have hlast : Ps.getLast? = some Ps[Ps.length - 1] := by
    rw [List.getLast?_eq_getElem?, List.getElem?_eq_getElem (by omega)]
  have hhead : Ps.head? = some Ps[0] := by
    rw [List.head?_eq_getElem?, List.getElem?_eq_getElem (by omega)]
  obtain ⟨sl, hsl, hslq⟩ := w.step (Ps.length - 1) Ps[Ps.length - 1] Ps[0]
    (List.getElem?_eq_getElem (by omega))
    (by rw [show Ps.length - 1 + 1 = Ps.length by omega, Nat.mod_self]; exact List.getElem?_eq_getElem (by omega))
  have hfl : findPermutationSwap Ps[Ps.length - 1] Ps[0] = some sl := by
    have := hnd Ps[Ps.length - 1] (List.getElem_mem _)
    rw [hslq]; exact findSwap_spec _ this.1 sl (by rw [this.2]; exact hsl)
  have hne : sw0.isEmpty = false := by
    cases sw0 with
    | nil => simp at hlen0; omega
    | cons _ _ => rfl
  refine ⟨sw0 ++ [sl], ?_, by rw [List.length_append, hlen0, ← w.len]; simp; omega, ?_⟩
  · unfold generateSwaps
    simp only [hPs, hc, hne, Bool.not_false, Bool.and_self, if_true, hlast, hhead, hfl]
  · intro k P Q hP hQ
    rw [← w.len] at hQ
    have hk : k < Ps.length := by
      by_cases h : k < Ps.length
      · exact h
      · rw [List.getElem?_eq_none (by omega)] at hP; cases hP
    by_cases hk1 : k + 1 < Ps.length
    · rw [Nat.mod_eq_of_lt hk1] at hQ
      obtain ⟨s, h1, h2, h3⟩ := hall0 k P Q hP hQ
      exact ⟨s, by rw [List.getElem?_append_left (by rw [hlen0]; omega)]; exact h1, h2, h3⟩
    · have hkl : k = Ps.length - 1 := by omega
      rw [hkl, show Ps.length - 1 + 1 = Ps.length by omega, Nat.mod_self] at hQ
      rw [hkl] at hP
      rw [List.getElem?_eq_getElem (by omega)] at hP hQ
      cases hP; cases hQ
      refine ⟨sl, ?_, hsl, hslq⟩
      rw [hkl, List.getElem?_append_right (by rw [hlen0]; exact Nat.le_refl _), hlen0]
      simp



theorem swapAdjL_map (φ : Nat → Nat) (s : Nat) (l : List Nat) : (swapAdjL s l).map φ = swapAdjL s (l.map φ) := by
  induction s generalizing l with
  | zero =>
    match l with
    | [] => rfl
    | [_] => rfl
    | _ :: _ :: _ => rfl
  | succ s ih =>
    match l with
    | [] => rfl
    | a :: r => simp [swapAdjL, ih]

theorem foldl_swap_map (φ : Nat → Nat) (sw : List Nat) (p : List Nat) :
    sw.foldl (fun q s => swapAdjL s q) (p.map φ) = (sw.foldl (fun q s => swapAdjL s q) p).map φ := by
  induction sw generalizing p with
  | nil => rfl
  | cons s ss ih => rw [List.foldl_cons, List.foldl_cons, ← swapAdjL_map, ih]

/-- relabelling the values of a duplicate-free list by their positions gives 0, 1, .., len-1 -/
theorem map_idxOf_self (p : List Nat) (hnd : p.Nodup) : p.map (fun v => p.idxOf v) = List.range p.length := by
  apply List.ext_getElem
  · simp
  · intro j h1 h2
    simp only [List.getElem_map, List.getElem_range]
    exact List.Nodup.idxOf_getElem hnd j (by simpa using h1)

/-- **the run-time swap generator, for every n >= 2**: `generate_swaps(n, true)` returns n!
    valid positions; applied in turn to the identity arrangement they come back to it, and the
    arrangements before each step are pairwise distinct -/
theorem generateSwaps_facts (n : Nat) (h2 : 2 ≤ n) :
    ∃ sw, generateSwaps n true = some sw ∧ (∀ s ∈ sw, s + 1 < n) ∧ sw ≠ [] ∧
      sw.foldl (fun q s => swapAdjL s q) (List.range n) = List.range n ∧
      (prefixPerms (List.range n) sw).Nodup ∧ sw.length = factL n := by
  obtain ⟨sw, hgen, hlen, hall⟩ := generateSwaps_spec n h2
  have w := gen_walk n h2
  generalize hPs : generateSingleSwapPermutations n = Ps at w hall
  have hL : Ps.length = sw.length := by rw [w.len, hlen]
  have hLpos : 0 < Ps.length := by rw [w.len]; exact factL_pos n
  have hstep : ∀ k (hk : k < Ps.length), ∃ s, sw[k]? = some s ∧ s + 1 < n ∧
      Ps[(k + 1) % Ps.length]? = some (swapAdjL s Ps[k]) := by
    intro k hk
    have hk1 : (k + 1) % Ps.length < Ps.length := Nat.mod_lt _ hLpos
    obtain ⟨s, h1, h2', h3⟩ := hall k Ps[k] Ps[(k + 1) % Ps.length] (List.getElem?_eq_getElem hk)
      (by rw [← w.len]; exact List.getElem?_eq_getElem hk1)
    exact ⟨s, h1, h2', by rw [List.getElem?_eq_getElem hk1, h3]⟩
  -- the walk from the first generated permutation (`nth k` avoids dependent indices)
  let nth : Nat → List Nat := fun k => Ps[k % Ps.length]?.getD []
  have nth_eq : ∀ k (hk : k < Ps.length), nth k = Ps[k] := by
    intro k hk
    show Ps[k % Ps.length]?.getD [] = Ps[k]
    rw [Nat.mod_eq_of_lt hk, List.getElem?_eq_getElem hk]; rfl
  have nth_mem : ∀ k, nth k ∈ Ps := by
    intro k
    have hk : k % Ps.length < Ps.length := Nat.mod_lt _ hLpos
    show Ps[k % Ps.length]?.getD [] ∈ Ps
    rw [List.getElem?_eq_getElem hk]; exact List.getElem_mem _
  have hwalk : ∀ k, k ≤ Ps.length → (sw.take k).foldl (fun q s => swapAdjL s q) (nth 0) = nth k := by
    intro k
    induction k with
    | zero => intro _; simp
    | succ k ih =>
      intro hk
      have hk' : k < Ps.length := by omega
      obtain ⟨s, h1, _, h3⟩ := hstep k hk'
      rw [List.take_succ, h1, Option.toList_some, List.foldl_append, ih (by omega)]
      simp only [List.foldl_cons, List.foldl_nil]
      rw [nth_eq k hk']
      show swapAdjL s Ps[k] = Ps[(k + 1) % Ps.length]?.getD []
      rw [h3]; rfl
  -- relabelling by the first permutation
  have hP0 := w.perm (nth 0) (nth_mem 0)
  have hP0nd : (nth 0).Nodup := hP0.nodup_iff.mpr List.nodup_range
  have hP0len : (nth 0).length = n := perm_length hP0
  have hrel : (nth 0).map (fun v => (nth 0).idxOf v) = List.range n := by
    rw [map_idxOf_self _ hP0nd, hP0len]
  have hfold : ∀ k, k ≤ Ps.length →
      (sw.take k).foldl (fun q s => swapAdjL s q) (List.range n) = (nth k).map (fun v => (nth 0).idxOf v) := by
    intro k hk
    rw [← hrel, foldl_swap_map, hwalk k hk]
  refine ⟨sw, hgen, ?_, ?_, ?_, ?_, hlen⟩
  · intro s hs
    obtain ⟨k, hk, rfl⟩ := List.getElem_of_mem hs
    obtain ⟨s', h1, h2', _⟩ := hstep k (by rw [hL]; exact hk)
    rw [List.getElem?_eq_getElem hk] at h1
    rw [Option.some.inj h1]; exact h2'
  · intro h
    have h0 : Ps.length = 0 := by rw [hL, h]; rfl
    omega
  · have := hfold Ps.length (Nat.le_refl _)
    rw [hL, List.take_length] at this
    rw [this]
    have e : nth sw.length = nth 0 := by
      show Ps[sw.length % Ps.length]?.getD [] = Ps[0 % Ps.length]?.getD []
      rw [← hL, Nat.mod_self, Nat.zero_mod]
    rw [e]
    exact hrel
  · -- the arrangements before each step are the generated permutations, relabelled
    have hlist : prefixPerms (List.range n) sw = Ps.map (fun P => P.map (fun v => (nth 0).idxOf v)) := by
      apply List.ext_getElem?
      intro k
      by_cases hk : k < Ps.length
      · rw [prefixPerms_getElem _ _ k (by rw [← hL]; exact hk), hfold k (by omega), nth_eq k hk]
        rw [List.getElem?_map, List.getElem?_eq_getElem hk]
        rfl
      · rw [List.getElem?_eq_none (by rw [prefixPerms_length, ← hL]; omega),
          List.getElem?_eq_none (by rw [List.length_map]; omega)]
    rw [hlist]
    unfold List.Nodup
    rw [List.pairwise_map]
    refine List.Pairwise.imp_of_mem ?_ w.nodup
    intro P Q hP hQ hne e
    apply hne
    -- undo the relabelling
    have hinv : ∀ R ∈ Ps, (R.map (fun v => (nth 0).idxOf v)).map (fun j => (nth 0)[j]?.getD 0) = R := by
      intro R hR
      rw [List.map_map]
      conv => rhs; rw [← List.map_id R]
      apply List.map_congr_left
      intro v hv
      have hv0 : v ∈ nth 0 := hP0.mem_iff.mpr ((w.perm R hR).mem_iff.mp hv)
      have hlt : (nth 0).idxOf v < (nth 0).length := List.idxOf_lt_length_of_mem hv0
      simp only [Function.comp, List.getElem?_eq_getElem hlt, Option.getD_some, id]
      exact List.getElem_idxOf hlt
    rw [← hinv P hP, ← hinv Q hQ, e]

end VoluteModel

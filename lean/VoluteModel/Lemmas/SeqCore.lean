import VoluteModel.Model.CanonGen

/-!
# Boolean checks on swap / flip sequences, and their kernel evaluation on the runtime generators

Everything here is independent of the constant tables of /repo (it imports only the model of the
generators).  The checks are evaluated in the kernel on the tables of the source (n <= 6,
`SeqFacts.lean`); for the run-time generators (n >= 7) the same facts are theorems for every n
(`Gray.lean`, `Sjt.lean`).  The checks:
 * `flipFactsB`  : positions valid, the Gray walk is closed, not empty;
 * `swapFactsB`  : positions valid, the walk returns to the identity, not empty;
 * `distinctPermsB` / `distinctMasksB` : the permutations (masks) before each step are pairwise
   distinct (with the length this is Hamiltonicity: `Lemmas/Cover.lean`).
-/

namespace VoluteModel


def xorFlips (flips : List Nat) : Nat := flips.foldl (fun a f => a ^^^ (1 <<< f)) 0

theorem xorFlips_foldl (flips : List Nat) (m : Nat) :
    flips.foldl (fun a f => a ^^^ (1 <<< f)) m = m ^^^ xorFlips flips := by
  induction flips generalizing m with
  | nil => simp [xorFlips]
  | cons f fs ih =>
    simp only [List.foldl_cons, xorFlips]
    rw [ih, ih (0 ^^^ 1 <<< f)]
    simp [Nat.xor_assoc]



/-- every flip position is valid, the Gray walk is closed and not empty -/
def flipFactsB (n : Nat) (flips : List Nat) : Bool :=
  flips.all (fun f => f < n) && (xorFlips flips == 0) && !flips.isEmpty

/-- a left fold that looks at every intermediate state (so that kernel evaluation is strict);
    it is the plain fold -/
def foldForce {σ α : Type} (f : σ → α → σ) (obs : σ → Bool) : σ → List α → σ
  | s, [] => s
  | s, x :: xs => if obs (f s x) then foldForce f obs (f s x) xs else foldForce f obs (f s x) xs

theorem foldForce_eq {σ α : Type} (f : σ → α → σ) (obs : σ → Bool) (s : σ) (xs : List α) :
    foldForce f obs s xs = xs.foldl f s := by
  induction xs generalizing s with
  | nil => rfl
  | cons x xs ih => simp only [foldForce, ite_self, List.foldl_cons, ih]

/-- adjacent swap on a list (kernel-friendly twin of `Array.swapIfInBounds s (s+1)`) -/
def swapAdjL : Nat → List Nat → List Nat
  | 0, a :: b :: r => b :: a :: r
  | s + 1, a :: r => a :: swapAdjL s r
  | _, l => l

theorem swapAdjL_length (s : Nat) (l : List Nat) : (swapAdjL s l).length = l.length := by
  induction s generalizing l with
  | zero =>
    match l with
    | [] => rfl
    | [_] => rfl
    | _ :: _ :: _ => rfl
  | succ s ih =>
    match l with
    | [] => rfl
    | a :: r => simp [swapAdjL, ih]

theorem swapAdjL_getElem? (s : Nat) (l : List Nat) (h : s + 1 < l.length) (k : Nat) :
    (swapAdjL s l)[k]? = if s + 1 = k then l[s]? else if s = k then l[s + 1]? else l[k]? := by
  induction s generalizing l k with
  | zero =>
    match l, h with
    | a :: b :: r, _ =>
      simp only [swapAdjL]
      match k with
      | 0 => simp
      | 1 => simp
      | k + 2 => simp
  | succ s ih =>
    match l, h with
    | a :: r, h =>
      simp only [swapAdjL]
      match k with
      | 0 => simp
      | k + 1 =>
        simp only [List.getElem?_cons_succ]
        rw [ih r (by simpa using h) k]
        have e1 : (s + 1 + 1 = k + 1) ↔ (s + 1 = k) := by omega
        have e2 : (s + 1 = k + 1) ↔ (s = k) := by omega
        simp only [e1, e2]

theorem swapAdjL_short (s : Nat) (l : List Nat) (h : ¬ s + 1 < l.length) : swapAdjL s l = l := by
  induction s generalizing l with
  | zero =>
    match l, h with
    | [], _ => rfl
    | [_], _ => rfl
    | _ :: _ :: _, h => simp at h
  | succ s ih =>
    match l, h with
    | [], _ => rfl
    | a :: r, h => simp only [swapAdjL]; rw [ih r (by simpa using h)]

theorem swapAdjL_eq (p : Array Nat) (s : Nat) : (p.swapIfInBounds s (s + 1)).toList = swapAdjL s p.toList := by
  by_cases h : s + 1 < p.size
  · apply List.ext_getElem?
    intro k
    rw [swapAdjL_getElem? s p.toList (by simpa using h) k, Array.getElem?_toList, Array.swapIfInBounds_def]
    have h1 : s < p.size := by omega
    simp only [h1, h, dite_true]
    rw [Array.getElem?_swap, Array.getElem?_toList, Array.getElem?_toList, Array.getElem?_toList]
    simp [h1, h]
  · rw [swapAdjL_short s p.toList (by simpa using h), Array.swapIfInBounds_def]
    by_cases h1 : s < p.size <;> simp [h1, h]

def obsL (p : List Nat) : Bool := p.foldl (· + ·) 0 == 0

/-- the permutation after a list of adjacent swaps -/
def permAfterL (n : Nat) (swaps : List Nat) : List Nat :=
  foldForce (fun p s => swapAdjL s p) obsL (List.range n) swaps

/-- every swap position is valid, the walk returns to the identity and is not empty -/
def swapFactsB (n : Nat) (swaps : List Nat) : Bool :=
  swaps.all (fun s => s + 1 < n) && !swaps.isEmpty && (permAfterL n swaps == List.range n)

/-! ## distinctness of the visited permutations / masks, kernel-evaluated -/

/-- k! -/
def factL : Nat → Nat
  | 0 => 1
  | k + 1 => (k + 1) * factL k

/-- Lehmer rank of a short list (below n! for a permutation of 0..n-1).  It is only used to
    detect repetitions - distinct codes imply distinct lists whatever the code is - and it keeps
    the bit mask of the codes seen small (n! bits) during kernel evaluation. -/
def codeL : List Nat → Nat
  | [] => 0
  | x :: xs => (xs.countP (fun y => decide (y < x))) * factL xs.length + codeL xs

/-- the permutations before each swap of the walk (start included) -/
def prefixPerms : List Nat → List Nat → List (List Nat)
  | _, [] => []
  | p, s :: ss => p :: prefixPerms (swapAdjL s p) ss

def covStep (st : List Nat × Nat × Bool) (s : Nat) : List Nat × Nat × Bool :=
  (swapAdjL s st.1, st.2.1 ||| 2 ^ codeL st.1, st.2.2 && !(st.2.1.testBit (codeL st.1)))

def covObs (st : List Nat × Nat × Bool) : Bool := obsL st.1 && st.2.2

def distinctPermsB (n : Nat) (swaps : List Nat) : Bool :=
  (foldForce covStep covObs (List.range n, 0, true) swaps).2.2

theorem cov_spec (swaps : List Nat) (p : List Nat) (m : Nat) (b : Bool)
    (h : (swaps.foldl covStep (p, m, b)).2.2 = true) :
    b = true ∧ ((prefixPerms p swaps).map codeL).Nodup ∧
      ∀ c ∈ (prefixPerms p swaps).map codeL, m.testBit c = false := by
  induction swaps generalizing p m b with
  | nil => exact ⟨h, by simp [prefixPerms], by simp [prefixPerms]⟩
  | cons s ss ih =>
    rw [List.foldl_cons] at h
    obtain ⟨hb, hnd, hall⟩ := ih _ _ _ h
    simp only [Bool.and_eq_true, Bool.not_eq_true'] at hb
    obtain ⟨hb1, hb2⟩ := hb
    refine ⟨hb1, ?_, ?_⟩
    · simp only [prefixPerms, List.map_cons, List.nodup_cons]
      refine ⟨?_, hnd⟩
      intro hmem
      have := hall _ hmem
      rw [Nat.testBit_or, Nat.testBit_two_pow] at this
      simp at this
    · intro c hc
      simp only [prefixPerms, List.map_cons, List.mem_cons] at hc
      rcases hc with rfl | hc
      · exact hb2
      · have := hall c hc
        rw [Nat.testBit_or] at this
        simp only [Bool.or_eq_false_iff] at this
        exact this.1

theorem prefixPerms_nodup (n : Nat) (swaps : List Nat) (h : distinctPermsB n swaps = true) :
    (prefixPerms (List.range n) swaps).Nodup := by
  unfold distinctPermsB at h
  rw [foldForce_eq] at h
  have := (cov_spec swaps _ _ _ h).2.1
  unfold List.Nodup at this ⊢
  rw [List.pairwise_map] at this
  exact this.imp (fun hne e => hne (by rw [e]))

theorem prefixPerms_length (p : List Nat) (swaps : List Nat) : (prefixPerms p swaps).length = swaps.length := by
  induction swaps generalizing p with
  | nil => rfl
  | cons s ss ih => simp [prefixPerms, ih]

theorem prefixPerms_getElem (p : List Nat) (swaps : List Nat) (j : Nat) (hj : j < swaps.length) :
    (prefixPerms p swaps)[j]? = some ((swaps.take j).foldl (fun q s => swapAdjL s q) p) := by
  induction swaps generalizing p j with
  | nil => simp at hj
  | cons s ss ih =>
    cases j with
    | zero => simp [prefixPerms]
    | succ j =>
      simp only [prefixPerms, List.getElem?_cons_succ, List.take_succ_cons, List.foldl_cons]
      exact ih _ j (by simpa using hj)

/-- the prefix xors of the flip walk (start included) -/
def prefixXors : Nat → List Nat → List Nat
  | _, [] => []
  | x, f :: fs => x :: prefixXors (x ^^^ 2 ^ f) fs

def grayStep (st : Nat × Nat × Bool) (f : Nat) : Nat × Nat × Bool :=
  (st.1 ^^^ 2 ^ f, st.2.1 ||| 2 ^ st.1, st.2.2 && !(st.2.1.testBit st.1))

def grayObs (st : Nat × Nat × Bool) : Bool := (st.1 == 0) && st.2.2

def distinctMasksB (flips : List Nat) : Bool :=
  (foldForce grayStep grayObs (0, 0, true) flips).2.2

theorem gray_spec (flips : List Nat) (x m : Nat) (b : Bool)
    (h : (flips.foldl grayStep (x, m, b)).2.2 = true) :
    b = true ∧ (prefixXors x flips).Nodup ∧ ∀ c ∈ prefixXors x flips, m.testBit c = false := by
  induction flips generalizing x m b with
  | nil => exact ⟨h, by simp [prefixXors], by simp [prefixXors]⟩
  | cons f fs ih =>
    rw [List.foldl_cons] at h
    obtain ⟨hb, hnd, hall⟩ := ih _ _ _ h
    simp only [Bool.and_eq_true, Bool.not_eq_true'] at hb
    obtain ⟨hb1, hb2⟩ := hb
    refine ⟨hb1, ?_, ?_⟩
    · simp only [prefixXors, List.nodup_cons]
      refine ⟨?_, hnd⟩
      intro hmem
      have := hall _ hmem
      rw [Nat.testBit_or, Nat.testBit_two_pow] at this
      simp at this
    · intro c hc
      simp only [prefixXors, List.mem_cons] at hc
      rcases hc with rfl | hc
      · exact hb2
      · have := hall c hc
        rw [Nat.testBit_or] at this
        simp only [Bool.or_eq_false_iff] at this
        exact this.1

theorem prefixXors_nodup (flips : List Nat) (h : distinctMasksB flips = true) : (prefixXors 0 flips).Nodup := by
  unfold distinctMasksB at h
  rw [foldForce_eq] at h
  exact (gray_spec flips _ _ _ h).2.1

theorem prefixXors_length (x : Nat) (flips : List Nat) : (prefixXors x flips).length = flips.length := by
  induction flips generalizing x with
  | nil => rfl
  | cons f fs ih => simp [prefixXors, ih]

theorem prefixXors_getElem (x : Nat) (flips : List Nat) (j : Nat) (hj : j < flips.length) :
    (prefixXors x flips)[j]? = some (x ^^^ xorFlips (flips.take j)) := by
  induction flips generalizing x j with
  | nil => simp at hj
  | cons f fs ih =>
    cases j with
    | zero => simp [prefixXors, xorFlips]
    | succ j =>
      simp only [prefixXors, List.getElem?_cons_succ, List.take_succ_cons]
      rw [ih _ j (by simpa using hj)]
      congr 1
      have : xorFlips (f :: fs.take j) = 2 ^ f ^^^ xorFlips (fs.take j) := by
        unfold xorFlips
        rw [List.foldl_cons, xorFlips_foldl]
        simp [Nat.shiftLeft_eq, xorFlips]
      rw [this, Nat.xor_assoc]


/-! ## all checks on a swap sequence in one pass (the generator output is consumed once) -/

/-- state: permutation, mask of the codes seen, all distinct so far, all positions valid so far,
    number of steps -/
def fusedStep (n : Nat) (st : List Nat × Nat × Bool × Bool × Nat) (s : Nat) : List Nat × Nat × Bool × Bool × Nat :=
  (swapAdjL s st.1, st.2.1 ||| 2 ^ codeL st.1, st.2.2.1 && !(st.2.1.testBit (codeL st.1)),
   st.2.2.2.1 && decide (s + 1 < n), st.2.2.2.2 + 1)

def fusedObs (st : List Nat × Nat × Bool × Bool × Nat) : Bool :=
  obsL st.1 && st.2.2.1 && st.2.2.2.1 && (st.2.2.2.2 == 0)

theorem fused_spec (n : Nat) (swaps : List Nat) (p : List Nat) (m : Nat) (d v : Bool) (c : Nat) :
    swaps.foldl (fusedStep n) (p, m, d, v, c) =
      ((swaps.foldl covStep (p, m, d)).1, (swaps.foldl covStep (p, m, d)).2.1, (swaps.foldl covStep (p, m, d)).2.2,
       v && swaps.all (fun s => decide (s + 1 < n)), c + swaps.length) := by
  induction swaps generalizing p m d v c with
  | nil => simp
  | cons s ss ih =>
    rw [List.foldl_cons, List.foldl_cons]
    simp only [fusedStep]
    rw [ih]
    simp only [covStep, List.all_cons, Bool.and_assoc, List.length_cons]
    congr 4
    omega

theorem covStep_fst (swaps : List Nat) (p : List Nat) (m : Nat) (d : Bool) :
    (swaps.foldl covStep (p, m, d)).1 = swaps.foldl (fun q s => swapAdjL s q) p := by
  induction swaps generalizing p m d with
  | nil => rfl
  | cons s ss ih => rw [List.foldl_cons, List.foldl_cons]; exact ih _ _ _

/-- everything `Lemmas/SeqFacts.lean` needs about a swap sequence for `n` variables of `len` steps:
    positions valid, walk closed, not empty, pairwise distinct permutations, `len` steps -/
def swapAllB (n len : Nat) (swaps : List Nat) : Bool :=
  let r := foldForce (fusedStep n) fusedObs (List.range n, 0, true, true, 0) swaps
  r.2.2.1 && r.2.2.2.1 && (r.2.2.2.2 == len) && (len != 0) && (r.1 == List.range n)

theorem swapAllB_spec (n len : Nat) (swaps : List Nat) (h : swapAllB n len swaps = true) :
    swapFactsB n swaps = true ∧ distinctPermsB n swaps = true ∧ swaps.length = len := by
  unfold swapAllB at h
  simp only [foldForce_eq, fused_spec, Bool.and_eq_true, Bool.true_and, beq_iff_eq, Nat.zero_add, bne_iff_ne, ne_eq] at h
  obtain ⟨⟨⟨⟨hd, hv⟩, hlen⟩, hne⟩, hclosed⟩ := h
  refine ⟨?_, ?_, hlen⟩
  · unfold swapFactsB permAfterL
    rw [foldForce_eq]
    rw [covStep_fst] at hclosed
    have hne' : swaps.isEmpty = false := by
      cases swaps with
      | nil => simp at hlen; exact absurd hlen.symm hne
      | cons _ _ => rfl
    simp only [Bool.and_eq_true, beq_iff_eq, Bool.not_eq_true']
    exact ⟨⟨hv, hne'⟩, hclosed⟩
  · unfold distinctPermsB
    rw [foldForce_eq]
    exact hd

/-- everything needed about a flip sequence -/
def flipAllB (n : Nat) (flips : List Nat) : Bool :=
  flipFactsB n flips && distinctMasksB flips && (flips.length == 2 ^ n)

end VoluteModel

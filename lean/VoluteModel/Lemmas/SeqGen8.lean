import VoluteModel.Lemmas.SeqCore

/-!
# The swap sequence generated at run time for n = 8 (40320 steps)

One kernel evaluation of the model of `generate_swaps(8, true)` through the single-pass check
`swapAllB`: about seven minutes and 25 GB, once - the result is cached by lake and, since this
file depends only on the model of the generators, it is not invalidated by changes to the
constant tables of /repo.
-/

namespace VoluteModel

set_option maxRecDepth 4000000 in
theorem swaps_gen8 : (match generateSwaps 8 true with | some sw => swapAllB 8 40320 sw | none => false) = true := by
  decide +kernel

end VoluteModel

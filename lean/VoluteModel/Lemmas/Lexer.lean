import VoluteModel.Model.Sop
import VoluteModel.Spec.EvalText

/-!
# Printing token lists and lexing them back (character level of C16)
-/

namespace VoluteModel
open Spec

/-- the canonical printer of a token list -/
def render : List Tok → List Nat
  | [] => []
  | .var i :: r => 120 :: (decDigits i ++ render r)
  | .not :: r => 33 :: render r
  | .zero :: r => 48 :: render r
  | .one :: r => 49 :: render r
  | .xor :: r => 32 :: 94 :: 32 :: render r
  | .or :: r => 32 :: 124 :: 32 :: render r

/-- variable indices are below 32 and a variable is never followed directly by a constant
    (which would merge with its decimal index) -/
def WFT : List Tok → Prop
  | [] => True
  | .var i :: r => i < 32 ∧ (match r with | .zero :: _ => False | .one :: _ => False | _ => True) ∧ WFT r
  | _ :: r => WFT r

theorem render_append (a b : List Tok) : render (a ++ b) = render a ++ render b := by
  induction a with
  | nil => rfl
  | cons t a ih => cases t <;> simp [render, ih]

/-- T1-style fact about decimal rendering of indices below 32 -/
theorem dec_facts : ∀ i : Fin 32,
    (decDigits i.val).all isDigit = true ∧ (decDigits i.val).length ≥ 1 ∧
    (decDigits i.val).foldl (fun v c => v * 10 + (c - 48)) 0 = i.val := by decide

theorem lexNum_digits (ds rest : List Nat) (v k : Nat) (hd : ds.all isDigit = true)
    (hr : rest = [] ∨ ∃ c r, rest = c :: r ∧ isDigit c = false) :
    lexNum (ds ++ rest) v k = (ds.foldl (fun v c => v * 10 + (c - 48)) v, k + ds.length, rest) := by
  induction ds generalizing v k with
  | nil =>
    simp only [List.nil_append, List.foldl_nil, List.length_nil, Nat.add_zero]
    rcases hr with rfl | ⟨c, r, rfl, hc⟩
    · rfl
    · simp [lexNum, hc]
  | cons d ds ih =>
    have hd1 : isDigit d = true := by simpa using (List.all_cons ▸ hd : _) |> fun h => (Bool.and_eq_true _ _ ▸ h).1
    have hd2 : ds.all isDigit = true := by
      have := hd; simp only [List.all_cons, Bool.and_eq_true] at this; exact this.2
    simp only [List.cons_append, lexNum, hd1, if_true, List.foldl_cons, List.length_cons]
    rw [ih _ _ hd2]
    congr 2; omega

/-- first character of a rendered token list is not a digit unless the first token is a constant -/
theorem render_head (r : List Tok) (h : match r with | .zero :: _ => False | .one :: _ => False | _ => True) :
    render r = [] ∨ ∃ c s, render r = c :: s ∧ isDigit c = false := by
  match r, h with
  | [], _ => left; rfl
  | .var i :: r, _ => right; exact ⟨120, _, rfl, by decide⟩
  | .not :: r, _ => right; exact ⟨33, _, rfl, by decide⟩
  | .xor :: r, _ => right; exact ⟨32, _, rfl, by decide⟩
  | .or :: r, _ => right; exact ⟨32, _, rfl, by decide⟩

/-- lexing what was printed gives the tokens back -/
theorem lexFuel_render (toks : List Tok) (h : WFT toks) (fuel : Nat) (hf : (render toks).length < fuel) :
    lexFuel fuel (render toks) = some toks := by
  induction toks generalizing fuel with
  | nil =>
    cases fuel with
    | zero => simp at hf
    | succ f => rfl
  | cons t r ih =>
    cases fuel with
    | zero => simp at hf
    | succ f =>
      cases t with
      | var i =>
        obtain ⟨hi, hnext, hr⟩ := h
        obtain ⟨d1, d2, d3⟩ := dec_facts ⟨i, hi⟩
        simp only [] at d1 d2 d3
        have hl := lexNum_digits (decDigits i) (render r) 0 0 d1 (render_head r hnext)
        simp only [render, List.length_cons, List.length_append] at hf
        have hlen : (decDigits i).length ≠ 0 := by omega
        simp only [render, lexFuel]
        have c1 : ¬ (120 = 32) := by decide
        have c2 : ¬ (120 = 33) := by decide
        have c3 : ¬ (120 = 94) := by decide
        have c4 : ¬ (120 = 124) := by decide
        have c5 : ¬ (120 = 48) := by decide
        have c6 : ¬ (120 = 49) := by decide
        simp only [c1, c2, c3, c4, c5, c6, if_false, if_true, hl, Nat.zero_add, hlen, d3]
        rw [ih hr f (by omega)]
        rfl
      | not =>
        simp only [render, List.length_cons] at hf
        simp only [render, lexFuel]
        have c1 : ¬ (33 = 32) := by decide
        simp only [c1, if_false, if_true]
        rw [ih h f (by omega)]; rfl
      | zero =>
        simp only [render, List.length_cons] at hf
        simp only [render, lexFuel]
        have c1 : ¬ (48 = 32) := by decide
        have c2 : ¬ (48 = 33) := by decide
        have c3 : ¬ (48 = 94) := by decide
        have c4 : ¬ (48 = 124) := by decide
        simp only [c1, c2, c3, c4, if_false, if_true]
        rw [ih h f (by omega)]; rfl
      | one =>
        simp only [render, List.length_cons] at hf
        simp only [render, lexFuel]
        have c1 : ¬ (49 = 32) := by decide
        have c2 : ¬ (49 = 33) := by decide
        have c3 : ¬ (49 = 94) := by decide
        have c4 : ¬ (49 = 124) := by decide
        have c5 : ¬ (49 = 48) := by decide
        simp only [c1, c2, c3, c4, c5, if_false, if_true]
        rw [ih h f (by omega)]; rfl
      | xor =>
        simp only [render, List.length_cons] at hf
        obtain ⟨f2, rfl⟩ : ∃ f2, f = f2 + 2 := ⟨f - 2, by omega⟩
        simp only [render, lexFuel]
        have c1 : ¬ (94 = 32) := by decide
        have c2 : ¬ (94 = 33) := by decide
        simp only [c1, c2, if_false, if_true]
        rw [ih h f2 (by omega)]; rfl
      | or =>
        simp only [render, List.length_cons] at hf
        obtain ⟨f2, rfl⟩ : ∃ f2, f = f2 + 2 := ⟨f - 2, by omega⟩
        simp only [render, lexFuel]
        have c1 : ¬ (124 = 32) := by decide
        have c2 : ¬ (124 = 33) := by decide
        have c3 : ¬ (124 = 94) := by decide
        simp only [c1, c2, c3, if_false, if_true]
        rw [ih h f2 (by omega)]; rfl

theorem lex_render (toks : List Tok) (h : WFT toks) : lex (render toks) = some toks :=
  lexFuel_render toks h _ (Nat.lt_succ_self _)

end VoluteModel

import VoluteModel.Model.Bdd

/-!
# `sort(); dedup()` = no duplicates, same members
-/

namespace VoluteModel
variable {α : Type} [DecidableEq α]

theorem mem_dedupAdj (x : α) : ∀ l : List α, x ∈ dedupAdj l ↔ x ∈ l
  | [] => by simp [dedupAdj]
  | [a] => by simp [dedupAdj]
  | a :: b :: l => by
    have ih := mem_dedupAdj x (b :: l)
    unfold dedupAdj
    by_cases h : a = b
    · subst h; simp only [if_true, ih]; simp
    · simp only [h, if_false, List.mem_cons] at ih ⊢
      rw [ih]

theorem nodup_dedupAdj (le : α → α → Bool)
    (hanti : ∀ a b, le a b = true → le b a = true → a = b) :
    ∀ l : List α, l.Pairwise (fun a b => le a b = true) → (dedupAdj l).Nodup
  | [], _ => by simp [dedupAdj]
  | [a], _ => by simp [dedupAdj]
  | a :: b :: l, hs => by
    have hs' : (b :: l).Pairwise (fun a b => le a b = true) := (List.pairwise_cons.mp hs).2
    have ih := nodup_dedupAdj le hanti (b :: l) hs'
    unfold dedupAdj
    by_cases h : a = b
    · simp only [h, if_true]; exact ih
    · simp only [h, if_false]
      rw [List.nodup_cons]
      refine ⟨?_, ih⟩
      intro hmem
      rw [mem_dedupAdj] at hmem
      have hab : le a b = true := (List.pairwise_cons.mp hs).1 b (by simp)
      rcases List.mem_cons.mp hmem with e | hin
      · exact h e
      · have hba : le b a = true := (List.pairwise_cons.mp hs').1 a hin
        exact h (hanti a b hab hba)

theorem sort_dedup_spec (le : α → α → Bool)
    (htrans : ∀ a b c, le a b = true → le b c = true → le a c = true)
    (htotal : ∀ a b, (le a b || le b a) = true)
    (hanti : ∀ a b, le a b = true → le b a = true → a = b) (l : List α) :
    (dedupAdj (l.mergeSort le)).Nodup ∧ ∀ x, x ∈ dedupAdj (l.mergeSort le) ↔ x ∈ l := by
  refine ⟨nodup_dedupAdj le hanti _ (List.pairwise_mergeSort htrans htotal l), ?_⟩
  intro x
  rw [mem_dedupAdj, (List.mergeSort_perm l le).mem_iff]

end VoluteModel

import VoluteModel.Lemmas.WFLemmas

/-!
# single-bit access and tabulation (`From<&Sop> for Lut` and friends)
-/

namespace VoluteModel

theorem shr6 (m : Nat) : m >>> 6 = m / 64 := by rw [Nat.shiftRight_eq_div_pow]

theorem and63 (m : Nat) : m &&& 0x3f = m % 64 := by
  have : (0x3f : Nat) = 2 ^ 6 - 1 := rfl
  rw [this, Nat.and_two_pow_sub_one_eq_mod]

theorem one_shl_bit (s k : Nat) (hs : s < 64) (hk : k < 64) : ((1#64 : W) <<< s).getLsbD k = decide (k = s) := by
  rw [BitVec.getLsbD_shiftLeft]
  by_cases h : k < s
  · have : k ≠ s := by omega
    simp [h, this]
  · by_cases he : k = s
    · subst he; simp [hk]
    · have : k - s ≠ 0 := by omega
      simp [h, he, hk, BitVec.getLsbD_one, this]

/-- `get_bit` reads the bit -/
theorem getBit_eq_bit (t : Array W) (m : Nat) : getBit t m = bit t m := by
  unfold getBit bit
  rw [shr6, and63]
  generalize t[m / 64]?.getD 0 = w
  have hlt := mod64_lt m
  cases hb : w.getLsbD (m % 64)
  · have : w &&& (1#64 <<< (m % 64)) = 0#64 := by
      apply BitVec.eq_of_getLsbD_eq
      intro k hk
      rw [BitVec.getLsbD_and, one_shl_bit _ _ hlt hk]
      by_cases he : k = m % 64
      · subst he; simp [hb]
      · simp [he]
    simp [this]
  · have : w &&& (1#64 <<< (m % 64)) ≠ 0#64 := by
      intro h0
      have := congrArg (fun x => x.getLsbD (m % 64)) h0
      simp only [BitVec.getLsbD_and, one_shl_bit _ _ hlt hlt, hb, BitVec.getLsbD_zero] at this
      simp at this
    simp [this]

/-- `set_bit` sets exactly that bit -/
theorem bit_setBit (t : Array W) (m k : Nat) (hm : m / 64 < t.size) :
    bit (setBit t m) k = (bit t k || decide (k = m)) := by
  unfold setBit bit
  rw [shr6, and63, Array.getElem?_modify]
  by_cases hw : m / 64 = k / 64
  · simp only [hw, if_true]
    have hk : k / 64 < t.size := by omega
    have e : t[k / 64]? = some t[k / 64] := by simp [hk]
    rw [e]
    simp only [Option.map_some, Option.getD_some, BitVec.getLsbD_or]
    rw [one_shl_bit _ _ (mod64_lt m) (mod64_lt k)]
    congr 1
    have : (k % 64 = m % 64) ↔ k = m := by omega
    simp [this]
  · simp only [hw, if_false]
    have : ¬ k = m := by intro e; subst e; exact hw rfl
    simp [this]

/-- `unset_bit` clears exactly that bit -/
theorem bit_unsetBit (t : Array W) (m k : Nat) :
    bit (unsetBit t m) k = (bit t k && !decide (k = m)) := by
  unfold unsetBit bit
  rw [shr6, and63, Array.getElem?_modify]
  by_cases hw : m / 64 = k / 64
  · simp only [hw, if_true]
    cases hx : t[k / 64]? with
    | none => simp
    | some w =>
      simp only [Option.map_some, Option.getD_some, BitVec.getLsbD_and, BitVec.getLsbD_not]
      rw [one_shl_bit _ _ (mod64_lt m) (mod64_lt k)]
      have hlt := mod64_lt k
      have : (k % 64 = m % 64) ↔ k = m := by omega
      simp [this, hlt]
  · simp only [hw, if_false]
    have : ¬ k = m := by intro e; subst e; exact hw rfl
    simp [this]

theorem zero_table_bit (n m : Nat) : bit (Dyn.zero n).t m = false := by
  unfold bit
  simp only [Dyn.zero, Dyn.new, fillZero]
  cases h : (Array.map (fun _ => 0#64) (Array.replicate (tableSize n) (0#64 : W)))[m / 64]? with
  | none => simp
  | some w =>
    have : w = 0#64 := by
      rw [Array.getElem?_eq_some_iff] at h
      obtain ⟨_, h⟩ := h
      simpa using h.symm
    simp [this]

/-- the tabulated table has the given values -/
theorem tabulate_bit (n : Nat) (f : Nat → Bool) (m : Nat) (hm : m < 2 ^ n) :
    bit (tabulate n f).t m = f m ∧ (tabulate n f).n = n := by
  unfold tabulate
  have key : ∀ (l : List Nat) (init : Lut), init.t.size = tableSize n → init.n = n → (∀ x ∈ l, x < 2 ^ n) → l.Nodup →
      let r := l.foldl (fun (l : Lut) m => if f m then { l with t := setBit l.t m } else l) init
      r.t.size = tableSize n ∧ r.n = n ∧ ∀ k, bit r.t k = (bit init.t k || (decide (k ∈ l) && f k)) := by
    intro l
    induction l with
    | nil => intro init hs hn _ _; simp [hs, hn]
    | cons a l ih =>
      intro init hs hn hl hnd
      simp only [List.foldl_cons]
      have ha : a < 2 ^ n := hl a (by simp)
      have hanot : a ∉ l := (List.nodup_cons.mp hnd).1
      by_cases hf : f a = true
      · simp only [hf, if_true]
        have hsz : (setBit init.t a).size = tableSize n := by simp [setBit, hs]
        obtain ⟨r1, r2, r3⟩ := ih { init with t := setBit init.t a } hsz hn
          (fun x hx => hl x (by simp [hx])) (List.nodup_cons.mp hnd).2
        refine ⟨r1, r2, ?_⟩
        intro k
        rw [r3 k]
        simp only []
        rw [bit_setBit _ _ _ (by rw [hs]; exact div64_lt_tableSize ha)]
        by_cases hk : k = a
        · subst hk; simp [hf]
        · simp [hk]
      · have hf' : f a = false := by simpa using hf
        simp only [hf', Bool.false_eq_true, if_false]
        obtain ⟨r1, r2, r3⟩ := ih init hs hn (fun x hx => hl x (by simp [hx])) (List.nodup_cons.mp hnd).2
        refine ⟨r1, r2, ?_⟩
        intro k
        rw [r3 k]
        by_cases hk : k = a
        · subst hk; simp [hanot, hf']
        · simp [hk]
  have := key (List.range (1 <<< n)) (Dyn.zero n) (by simp [Dyn.zero, Dyn.new, fillZero]) rfl
    (by intro x hx; simpa [Nat.shiftLeft_eq] using hx) List.nodup_range
  obtain ⟨_, h2, h3⟩ := this
  refine ⟨?_, h2⟩
  rw [h3 m, zero_table_bit]
  have : m ∈ List.range (1 <<< n) := by simpa [Nat.shiftLeft_eq] using hm
  simp [this]

end VoluteModel

import VoluteModel.Lemmas.CanonMain

/-!
# A certificate determines the table: existence of the pre-image assignment, uniqueness
-/

namespace VoluteModel

/-- the number whose bit k (k < n) is `g k` -/
def bitsToNat (g : Nat → Bool) : Nat → Nat
  | 0 => 0
  | k + 1 => bitsToNat g k ||| (if g k then 2 ^ k else 0)

theorem bitsToNat_testBit (g : Nat → Bool) (n k : Nat) :
    (bitsToNat g n).testBit k = (decide (k < n) && g k) := by
  induction n with
  | zero => simp [bitsToNat]
  | succ n ih =>
    simp only [bitsToNat, Nat.testBit_or, ih]
    by_cases hk : k = n
    · subst hk
      cases hg : g k <;> simp [Nat.testBit_two_pow]
    · have h1 : decide (k < n + 1) = decide (k < n) := by
        by_cases h : k < n
        · simp [h]; omega
        · simp [h]; omega
      rw [h1]
      cases hg : g n
      · simp
      · have : ¬ n = k := fun e => hk e.symm
        simp [Nat.testBit_two_pow, this]

theorem bitsToNat_lt (g : Nat → Bool) (n : Nat) : bitsToNat g n < 2 ^ n := by
  apply Nat.lt_pow_two_of_testBit
  intro i hi
  rw [bitsToNat_testBit]
  have : ¬ i < n := by omega
  simp [this]

theorem isPerm_lt {n : Nat} {p : Array Nat} (h : IsPerm n p) (i : Nat) (hi : i < n) :
    p[i]?.getD 0 < n := by
  have hi' : i < p.size := by rw [h.1]; exact hi
  rw [Array.getElem?_eq_getElem hi', Option.getD_some]
  have : p[i] ∈ p.toList := by simp
  have := h.2.mem_iff.mp this
  simpa using this

/-- for a permutation, every output assignment y has a pre-image assignment x -/
theorem cert_total (n : Nat) (p : Array Nat) (m : Nat) (hp : IsPerm n p) (y : Nat) :
    ∃ x, x < 2 ^ n ∧ ∀ i, i < n → x.testBit (p[i]?.getD 0) = (y.testBit i != m.testBit i) := by
  refine ⟨bitsToNat (fun k => y.testBit (p.toList.idxOf k) != m.testBit (p.toList.idxOf k)) n, bitsToNat_lt _ _, ?_⟩
  intro i hi
  rw [bitsToNat_testBit]
  have hlt := isPerm_lt hp i hi
  have hi' : i < p.size := by rw [hp.1]; exact hi
  have hnd : p.toList.Nodup := hp.2.nodup_iff.mpr List.nodup_range
  have hidx : p.toList.idxOf (p[i]?.getD 0) = i := by
    rw [Array.getElem?_eq_getElem hi', Option.getD_some]
    have := List.Nodup.idxOf_getElem hnd i (by simpa using hi')
    simpa using this
  simp only [hlt, decide_true, Bool.true_and, hidx]

/-- two well-formed tables with the same certificate with respect to f are equal -/
theorem cert_unique (n : Nat) (f t t' : Array W) (p : Array Nat) (m : Nat) (hp : IsPerm n p)
    (ht : WF n t) (ht' : WF n t') (h : CertRel n f t p m) (h' : CertRel n f t' p m) : t = t' := by
  have := VoluteModel.Props.C08.eq_of_eval ⟨n, t⟩ ⟨n, t'⟩ ht ht' rfl (by
    intro y hy
    obtain ⟨x, hx, hrel⟩ := cert_total n p m hp y
    have a := h y x hy hx hrel
    have b := h' y x hy hx hrel
    simp only [Lut.eval]
    rw [a, b])
  exact congrArg Lut.t this

end VoluteModel

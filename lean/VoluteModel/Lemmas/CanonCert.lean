import VoluteModel.Lemmas.CanonFlat
import VoluteModel.Props.C01
import VoluteModel.Props.C03

/-!
# The certificate invariant of the canonization walks

`CertRel n f t perm mask` : the table `t` is the function
`g(y) = f(x) xor mask[n]  where  x[perm[i]] = y[i] xor mask[i]  for all i < n`
(the reading of the certificate in property C05).  Every elementary transform of the walk
updates the table and the certificate in step.
-/

namespace VoluteModel
open VoluteModel.Props.C03

def CertRel (n : Nat) (f t : Array W) (perm : Array Nat) (mask : Nat) : Prop :=
  ∀ y x, y < 2 ^ n → x < 2 ^ n →
    (∀ i, i < n → x.testBit (perm[i]?.getD 0) = (y.testBit i != mask.testBit i)) →
    bit t y = (bit f x != mask.testBit n)

def LowZero (n mask : Nat) : Prop := ∀ i, i < n → mask.testBit i = false

theorem eq_of_testBit_lt {n x y : Nat} (hx : x < 2 ^ n) (hy : y < 2 ^ n)
    (h : ∀ i, i < n → x.testBit i = y.testBit i) : x = y := by
  apply Nat.eq_of_testBit_eq
  intro i
  by_cases hi : i < n
  · exact h i hi
  · have p : 2 ^ n ≤ 2 ^ i := Nat.pow_le_pow_right (by omega) (by omega)
    rw [Nat.testBit_lt_two_pow (by omega), Nat.testBit_lt_two_pow (by omega)]

/-- at the start the table is the function and the certificate is the identity -/
theorem cert_init (n : Nat) (f : Array W) : CertRel n f f (Array.range n) 0 := by
  intro y x hy hx h
  have : x = y := by
    apply eq_of_testBit_lt hx hy
    intro i hi
    have := h i hi
    simpa [hi] using this
  subst this; simp

theorem not_bit_size (n : Nat) (t : Array W) (hs : t.size = tableSize n) (m : Nat) (hm : m < 2 ^ n) :
    bit (notInplace n t) m = !bit t m := by
  have hw : m / 64 < t.size := by rw [hs]; exact div64_lt_tableSize hm
  unfold notInplace
  rw [bit_map _ _ _ hw, bit_eq_getElem hw]
  have hb := mod64_lt m
  simp only [BitVec.getLsbD_and, BitVec.getLsbD_not, numVarsMask_bit n _ hb]
  have : m % 64 < 2 ^ n := by
    by_cases h6 : n ≤ 6
    · have := (small_index h6 hm).2; omega
    · have : 2 ^ 6 ≤ 2 ^ n := Nat.pow_le_pow_right (by omega) (by omega)
      omega
  simp [this, hb]

theorem applyElem_size (n : Nat) (t : Array W) (e : Elem) : (applyElem n t e).size = t.size := by
  cases e with
  | swap s => exact swapInplace_size t s (s + 1)
  | flip f => exact flipInplace_size t f
  | neg => simp [applyElem, notInplace]

theorem applyElems_size (n : Nat) (t : Array W) (es : List Elem) : (applyElems n t es).size = t.size := by
  induction es generalizing t with
  | nil => rfl
  | cons e es ih => simp only [applyElems, List.foldl_cons] at ih ⊢; rw [ih, applyElem_size]

/-- an elementary step is admissible in the current certificate state -/
def ElemOK (n : Nat) (st : Array Nat × Nat) : Elem → Prop
  | .swap s => s + 1 < n ∧ LowZero n st.2
  | .flip f => f < n
  | .neg => True

theorem shl_one (k : Nat) : (1 <<< k : Nat) = 2 ^ k := by simp [Nat.shiftLeft_eq]

/-- one elementary step keeps table and certificate in step -/
theorem cert_elem (n : Nat) (f t : Array W) (p : Array Nat) (m : Nat) (e : Elem)
    (hs : t.size = tableSize n) (hp : p.size = n) (h : CertRel n f t p m) (hok : ElemOK n (p, m) e) :
    CertRel n f (applyElem n t e) (rstepE n (p, m) e).1 (rstepE n (p, m) e).2 := by
  cases e with
  | neg =>
    intro y x hy hx hrel
    simp only [applyElem, rstepE, shl_one] at hrel ⊢
    rw [not_bit_size n t hs y hy]
    have hx' : ∀ i, i < n → x.testBit (p[i]?.getD 0) = (y.testBit i != m.testBit i) := by
      intro i hi
      have := hrel i hi
      rw [testBit_xor_two_pow] at this
      have hne : ¬ n = i := by omega
      simpa [hne] using this
    rw [h y x hy hx hx', testBit_xor_two_pow]
    simp
  | flip fl =>
    have hfl : fl < n := hok
    intro y x hy hx hrel
    simp only [applyElem, rstepE, shl_one] at hrel ⊢
    rw [flip_bit n t hs fl hfl y hy]
    have hy' : y ^^^ 2 ^ fl < 2 ^ n := xor_lt_two_pow_of_lt hy hfl
    have hx' : ∀ i, i < n → x.testBit (p[i]?.getD 0) = ((y ^^^ 2 ^ fl).testBit i != m.testBit i) := by
      intro i hi
      have := hrel i hi
      rw [testBit_xor_two_pow] at this
      rw [testBit_xor_two_pow, this]
      cases y.testBit i <;> cases m.testBit i <;> cases decide (fl = i) <;> rfl
    rw [h _ x hy' hx hx', testBit_xor_two_pow]
    have hne : ¬ fl = n := by omega
    simp [hne]
  | swap s =>
    obtain ⟨hs1, hlow⟩ := hok
    intro y x hy hx hrel
    simp only [applyElem, rstepE, swapAdjacentInplace] at hrel ⊢
    rw [swap_bit n t hs s (s + 1) (by omega) hs1 y hy]
    have hy' : exch s (s + 1) y < 2 ^ n := exch_lt (by omega) hs1 hy
    have hsw : ∀ i, (p.swapIfInBounds s (s + 1))[i]? =
        if s + 1 = i then p[s]? else if s = i then p[s + 1]? else p[i]? := by
      intro i
      rw [Array.swapIfInBounds_def]
      have h1 : s < p.size := by omega
      have h2 : s + 1 < p.size := by omega
      simp only [h1, h2, dite_true]
      rw [Array.getElem?_swap]
      have e1 : p[s]? = some p[s] := by simp [h1]
      have e2 : p[s + 1]? = some p[s + 1] := by simp [h2]
      rw [e1, e2]
    have hx' : ∀ i, i < n → x.testBit (p[i]?.getD 0) = ((exch s (s + 1) y).testBit i != m.testBit i) := by
      intro i hi
      rw [exch_testBit]
      by_cases h1 : i = s
      · subst h1
        have := hrel (i + 1) hs1
        rw [hsw] at this
        simp only [if_true] at this
        rw [this, hlow i hi, hlow (i + 1) hs1]
        simp
      · by_cases h2 : i = s + 1
        · subst h2
          have := hrel s (by omega)
          rw [hsw] at this
          have hne : ¬ (s + 1 = s) := by omega
          simp only [hne, if_false, if_true] at this
          rw [this, hlow s (by omega), hlow (s + 1) hs1]
          simp [h1]
        · have := hrel i hi
          rw [hsw] at this
          have a1 : ¬ (s + 1 = i) := fun e => h2 e.symm
          have a2 : ¬ (s = i) := fun e => h1 e.symm
          simp only [a1, a2, if_false] at this
          rw [this]
          simp [h1, h2]
    exact h _ x hy' hx hx'

/-- admissibility of a whole list of steps from a certificate state -/
def Safe (n : Nat) : Array Nat × Nat → List Elem → Prop
  | _, [] => True
  | st, e :: es => ElemOK n st e ∧ Safe n (rstepE n st e) es

theorem Safe_append (n : Nat) (st : Array Nat × Nat) (a b : List Elem) :
    Safe n st (a ++ b) ↔ Safe n st a ∧ Safe n (certAfter n st a) b := by
  induction a generalizing st with
  | nil => simp [Safe, certAfter]
  | cons e a ih =>
    simp only [List.cons_append, Safe, ih, certAfter, List.foldl_cons, and_assoc]

/-- the invariant along any admissible list of steps -/
theorem cert_elems (n : Nat) (f t : Array W) (es : List Elem) (st : Array Nat × Nat)
    (hs : t.size = tableSize n) (hp : st.1.size = n) (h : CertRel n f t st.1 st.2) (hsafe : Safe n st es) :
    CertRel n f (applyElems n t es) (certAfter n st es).1 (certAfter n st es).2 := by
  induction es generalizing t st with
  | nil => exact h
  | cons e es ih =>
    simp only [applyElems, certAfter, List.foldl_cons] at ih ⊢
    obtain ⟨hok, hrest⟩ := hsafe
    apply ih
    · rw [applyElem_size]; exact hs
    · cases e <;> simp [rstepE, hp]
    · cases st with
      | mk p m => exact cert_elem n f t p m e hs hp h hok
    · exact hrest

/-! ## permutations -/

def IsPerm (n : Nat) (p : Array Nat) : Prop := p.size = n ∧ p.toList.Perm (List.range n)

theorem isPerm_range (n : Nat) : IsPerm n (Array.range n) := ⟨by simp, by simp [Array.toList_range]⟩

theorem isPerm_swap (n : Nat) (p : Array Nat) (h : IsPerm n p) (s : Nat) (hs : s + 1 < n) :
    IsPerm n (p.swapIfInBounds s (s + 1)) := by
  refine ⟨by simp [h.1], ?_⟩
  rw [Array.swapIfInBounds_def]
  have h1 : s < p.size := by rw [h.1]; omega
  have h2 : s + 1 < p.size := by rw [h.1]; omega
  simp only [h1, h2, dite_true]
  have := Array.swap_perm h1 h2
  rw [Array.perm_iff_toList_perm] at this
  exact this.trans h.2

theorem certAfter_isPerm (n : Nat) (st : Array Nat × Nat) (es : List Elem) (h : IsPerm n st.1)
    (hv : ∀ e ∈ es, ∀ s, e = Elem.swap s → s + 1 < n) : IsPerm n (certAfter n st es).1 := by
  induction es generalizing st with
  | nil => exact h
  | cons e es ih =>
    simp only [certAfter, List.foldl_cons] at ih ⊢
    apply ih
    · cases e with
      | swap s => exact isPerm_swap n st.1 h s (hv _ (by simp) s rfl)
      | flip f => exact h
      | neg => exact h
    · intro e' he' s hs; exact hv e' (by simp [he']) s hs

end VoluteModel

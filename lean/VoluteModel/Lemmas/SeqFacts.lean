import VoluteModel.Lemmas.CanonMain

/-!
# Facts about the swap / flip sequences, kernel-evaluated on the sequences in use

For n <= 6 the sequences are the tables `SWAPS` / `FLIPS` regenerated from /repo/src (T1);
for n = 7 they are the model of the runtime generators (tied to the Rust generators by the
`verif_canon_sequences` hook in the correspondence run).
-/

namespace VoluteModel
open Gen

/-- every flip position is valid, the Gray walk is closed and not empty -/
def flipFactsB (n : Nat) (flips : List Nat) : Bool :=
  flips.all (fun f => f < n) && (xorFlips flips == 0) && !flips.isEmpty

/-- a left fold that looks at every intermediate state (so that kernel evaluation is strict);
    it is the plain fold -/
def foldForce {σ α : Type} (f : σ → α → σ) (obs : σ → Bool) : σ → List α → σ
  | s, [] => s
  | s, x :: xs => if obs (f s x) then foldForce f obs (f s x) xs else foldForce f obs (f s x) xs

theorem foldForce_eq {σ α : Type} (f : σ → α → σ) (obs : σ → Bool) (s : σ) (xs : List α) :
    foldForce f obs s xs = xs.foldl f s := by
  induction xs generalizing s with
  | nil => rfl
  | cons x xs ih => simp only [foldForce, ite_self, List.foldl_cons, ih]

/-- adjacent swap on a list (kernel-friendly twin of `Array.swapIfInBounds s (s+1)`) -/
def swapAdjL : Nat → List Nat → List Nat
  | 0, a :: b :: r => b :: a :: r
  | s + 1, a :: r => a :: swapAdjL s r
  | _, l => l

theorem swapAdjL_length (s : Nat) (l : List Nat) : (swapAdjL s l).length = l.length := by
  induction s generalizing l with
  | zero =>
    match l with
    | [] => rfl
    | [_] => rfl
    | _ :: _ :: _ => rfl
  | succ s ih =>
    match l with
    | [] => rfl
    | a :: r => simp [swapAdjL, ih]

theorem swapAdjL_getElem? (s : Nat) (l : List Nat) (h : s + 1 < l.length) (k : Nat) :
    (swapAdjL s l)[k]? = if s + 1 = k then l[s]? else if s = k then l[s + 1]? else l[k]? := by
  induction s generalizing l k with
  | zero =>
    match l, h with
    | a :: b :: r, _ =>
      simp only [swapAdjL]
      match k with
      | 0 => simp
      | 1 => simp
      | k + 2 => simp
  | succ s ih =>
    match l, h with
    | a :: r, h =>
      simp only [swapAdjL]
      match k with
      | 0 => simp
      | k + 1 =>
        simp only [List.getElem?_cons_succ]
        rw [ih r (by simpa using h) k]
        have e1 : (s + 1 + 1 = k + 1) ↔ (s + 1 = k) := by omega
        have e2 : (s + 1 = k + 1) ↔ (s = k) := by omega
        simp only [e1, e2]

theorem swapAdjL_short (s : Nat) (l : List Nat) (h : ¬ s + 1 < l.length) : swapAdjL s l = l := by
  induction s generalizing l with
  | zero =>
    match l, h with
    | [], _ => rfl
    | [_], _ => rfl
    | _ :: _ :: _, h => simp at h
  | succ s ih =>
    match l, h with
    | [], _ => rfl
    | a :: r, h => simp only [swapAdjL]; rw [ih r (by simpa using h)]

theorem swapAdjL_eq (p : Array Nat) (s : Nat) : (p.swapIfInBounds s (s + 1)).toList = swapAdjL s p.toList := by
  by_cases h : s + 1 < p.size
  · apply List.ext_getElem?
    intro k
    rw [swapAdjL_getElem? s p.toList (by simpa using h) k, Array.getElem?_toList, Array.swapIfInBounds_def]
    have h1 : s < p.size := by omega
    simp only [h1, h, dite_true]
    rw [Array.getElem?_swap, Array.getElem?_toList, Array.getElem?_toList, Array.getElem?_toList]
    simp [h1, h]
  · rw [swapAdjL_short s p.toList (by simpa using h), Array.swapIfInBounds_def]
    by_cases h1 : s < p.size <;> simp [h1, h]

def obsL (p : List Nat) : Bool := p.foldl (· + ·) 0 == 0

/-- the permutation after a list of adjacent swaps -/
def permAfterL (n : Nat) (swaps : List Nat) : List Nat :=
  foldForce (fun p s => swapAdjL s p) obsL (List.range n) swaps

theorem permAfterL_eq (n : Nat) (swaps : List Nat) :
    permAfterL n swaps = (certAfter n (Array.range n, 0) (swaps.map Elem.swap)).1.toList := by
  unfold permAfterL
  rw [foldForce_eq]
  have : ∀ (l : List Nat) (p : Array Nat) (m : Nat),
      l.foldl (fun q s => swapAdjL s q) p.toList = (certAfter n (p, m) (l.map Elem.swap)).1.toList := by
    intro l
    induction l with
    | nil => intro p m; rfl
    | cons s ss ih =>
      intro p m
      simp only [List.foldl_cons, List.map_cons, certAfter, rstepE] at ih ⊢
      rw [← swapAdjL_eq]
      exact ih _ m
  have := this swaps (Array.range n) 0
  simpa [Array.toList_range] using this

/-- every swap position is valid, the walk returns to the identity and is not empty -/
def swapFactsB (n : Nat) (swaps : List Nat) : Bool :=
  swaps.all (fun s => s + 1 < n) && !swaps.isEmpty && (permAfterL n swaps == List.range n)

structure FlipFacts (n : Nat) (flips : List Nat) : Prop where
  valid : ∀ f ∈ flips, f < n
  closed : xorFlips flips = 0
  ne : flips ≠ []

structure SwapFacts (n : Nat) (swaps : List Nat) : Prop where
  valid : ∀ s ∈ swaps, s + 1 < n
  ne : swaps ≠ []
  closed : (certAfter n (Array.range n, 0) (swaps.map Elem.swap)).1 = Array.range n

theorem flipFacts_of (n : Nat) (flips : List Nat) (h : flipFactsB n flips = true) : FlipFacts n flips := by
  unfold flipFactsB at h
  simp only [Bool.and_eq_true, List.all_eq_true, decide_eq_true_eq, beq_iff_eq, Bool.not_eq_true',
    List.isEmpty_eq_false_iff] at h
  exact ⟨h.1.1, h.1.2, h.2⟩

theorem swapFacts_of (n : Nat) (swaps : List Nat) (h : swapFactsB n swaps = true) : SwapFacts n swaps := by
  unfold swapFactsB at h
  simp only [Bool.and_eq_true, List.all_eq_true, decide_eq_true_eq, beq_iff_eq, Bool.not_eq_true',
    List.isEmpty_eq_false_iff] at h
  refine ⟨h.1.1, h.1.2, ?_⟩
  have := h.2
  rw [permAfterL_eq] at this
  apply Array.ext'
  simpa [Array.toList_range] using this

/-- T1: the flip tables FLIPS[1..6] of the source -/
theorem flips_table : ∀ n : Fin 7, 1 ≤ n.val → flipFactsB n.val ((FLIPS[n.val]?).getD []) = true := by
  decide +kernel

/-- T1: the swap tables SWAPS[2..6] of the source -/
theorem swaps_table : ∀ n : Fin 7, 2 ≤ n.val → swapFactsB n.val ((SWAPS[n.val]?).getD []) = true := by
  decide +kernel

/-- the runtime generators, n = 7 -/
theorem flips_gen7 : flipFactsB 7 (generateGrayFlips 7 true) = true := by decide +kernel

set_option maxRecDepth 200000 in
theorem swaps_gen7 : (match generateSwaps 7 true with | some sw => swapFactsB 7 sw | none => false) = true := by
  decide +kernel

/-- the sequences used for `n` variables satisfy the facts, n = 1..7 (flips) / 2..7 (swaps) -/
theorem flipsFor_facts (n : Nat) (h1 : 1 ≤ n) (h7 : n ≤ 7) : ∃ fl, flipsFor n = some fl ∧ FlipFacts n fl := by
  by_cases h6 : n ≤ 6
  · have hlt : n < FLIPS.size := by
      have : FLIPS.size = 7 := by decide
      omega
    refine ⟨FLIPS[n], by simp [flipsFor, h6, hlt], ?_⟩
    have := flips_table ⟨n, by omega⟩ h1
    simp only [Array.getElem?_eq_getElem hlt, Option.getD_some] at this
    exact flipFacts_of n _ this
  · have : n = 7 := by omega
    subst this
    exact ⟨generateGrayFlips 7 true, by simp [flipsFor], flipFacts_of 7 _ flips_gen7⟩

theorem swapsFor_facts (n : Nat) (h2 : 2 ≤ n) (h7 : n ≤ 7) : ∃ sw, swapsFor n = some sw ∧ SwapFacts n sw := by
  by_cases h6 : n ≤ 6
  · have hlt : n < SWAPS.size := by
      have : SWAPS.size = 7 := by decide
      omega
    refine ⟨SWAPS[n], by simp [swapsFor, h6, hlt], ?_⟩
    have := swaps_table ⟨n, by omega⟩ h2
    simp only [Array.getElem?_eq_getElem hlt, Option.getD_some] at this
    exact swapFacts_of n _ this
  · have : n = 7 := by omega
    subst this
    have g := swaps_gen7
    match hg : generateSwaps 7 true with
    | none => rw [hg] at g; cases g
    | some sw =>
      rw [hg] at g
      exact ⟨sw, by simp [swapsFor, hg], swapFacts_of 7 sw g⟩

end VoluteModel

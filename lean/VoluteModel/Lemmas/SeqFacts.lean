import VoluteModel.Lemmas.CanonMain
import VoluteModel.Lemmas.SeqCore
import VoluteModel.Lemmas.Sjt
import VoluteModel.Lemmas.Gray

/-!
# Facts about the swap / flip sequences in use

For n <= 6 the sequences are the tables `SWAPS` / `FLIPS` regenerated from /repo/src (T1) and the
Boolean checks of `SeqCore` are evaluated on them here, in the kernel; for n >= 7 they are the model
of the run-time generators (tied to the Rust generators by the `verif_canon_sequences` /
`verif_last_sequences` hooks in the correspondence run), about which the same facts are proved
for every n in `Gray.lean` and `Sjt.lean`.
-/

namespace VoluteModel
open Gen

theorem permAfterL_eq (n : Nat) (swaps : List Nat) :
    permAfterL n swaps = (certAfter n (Array.range n, 0) (swaps.map Elem.swap)).1.toList := by
  unfold permAfterL
  rw [foldForce_eq]
  have : ∀ (l : List Nat) (p : Array Nat) (m : Nat),
      l.foldl (fun q s => swapAdjL s q) p.toList = (certAfter n (p, m) (l.map Elem.swap)).1.toList := by
    intro l
    induction l with
    | nil => intro p m; rfl
    | cons s ss ih =>
      intro p m
      simp only [List.foldl_cons, List.map_cons, certAfter, rstepE] at ih ⊢
      rw [← swapAdjL_eq]
      exact ih _ m
  have := this swaps (Array.range n) 0
  simpa [Array.toList_range] using this

structure FlipFacts (n : Nat) (flips : List Nat) : Prop where
  valid : ∀ f ∈ flips, f < n
  closed : xorFlips flips = 0
  ne : flips ≠ []

structure SwapFacts (n : Nat) (swaps : List Nat) : Prop where
  valid : ∀ s ∈ swaps, s + 1 < n
  ne : swaps ≠ []
  closed : (certAfter n (Array.range n, 0) (swaps.map Elem.swap)).1 = Array.range n

theorem flipFacts_of (n : Nat) (flips : List Nat) (h : flipFactsB n flips = true) : FlipFacts n flips := by
  unfold flipFactsB at h
  simp only [Bool.and_eq_true, List.all_eq_true, decide_eq_true_eq, beq_iff_eq, Bool.not_eq_true',
    List.isEmpty_eq_false_iff] at h
  exact ⟨h.1.1, h.1.2, h.2⟩

theorem swapFacts_of (n : Nat) (swaps : List Nat) (h : swapFactsB n swaps = true) : SwapFacts n swaps := by
  unfold swapFactsB at h
  simp only [Bool.and_eq_true, List.all_eq_true, decide_eq_true_eq, beq_iff_eq, Bool.not_eq_true',
    List.isEmpty_eq_false_iff] at h
  refine ⟨h.1.1, h.1.2, ?_⟩
  have := h.2
  rw [permAfterL_eq] at this
  apply Array.ext'
  simpa [Array.toList_range] using this


/-- the walk visits pairwise distinct permutations and has n! steps -/
structure SwapCover (n : Nat) (swaps : List Nat) : Prop where
  nodup : (prefixPerms (List.range n) swaps).Nodup
  length : swaps.length = factL n

/-- the Gray walk visits pairwise distinct masks and has 2^n steps -/
structure FlipCover (n : Nat) (flips : List Nat) : Prop where
  nodup : (prefixXors 0 flips).Nodup
  length : flips.length = 2 ^ n

theorem swapAll_of (n : Nat) (swaps : List Nat) (h : swapAllB n (factL n) swaps = true) :
    SwapFacts n swaps ∧ SwapCover n swaps := by
  obtain ⟨h1, h2, h3⟩ := swapAllB_spec n (factL n) swaps h
  exact ⟨swapFacts_of n swaps h1, ⟨prefixPerms_nodup n swaps h2, h3⟩⟩

/-- the same from list-level facts (the form in which `Sjt.lean` proves them for the generator) -/
theorem swapFacts_of_list (n : Nat) (swaps : List Nat) (hv : ∀ s ∈ swaps, s + 1 < n) (hne : swaps ≠ [])
    (hc : swaps.foldl (fun q s => swapAdjL s q) (List.range n) = List.range n) : SwapFacts n swaps := by
  refine ⟨hv, hne, ?_⟩
  have h := permAfterL_eq n swaps
  unfold permAfterL at h
  rw [foldForce_eq, hc] at h
  apply Array.ext'
  simpa [Array.toList_range] using h.symm

theorem flipAll_of (n : Nat) (flips : List Nat) (h : flipAllB n flips = true) :
    FlipFacts n flips ∧ FlipCover n flips := by
  unfold flipAllB at h
  simp only [Bool.and_eq_true, beq_iff_eq] at h
  exact ⟨flipFacts_of n flips h.1.1, ⟨prefixXors_nodup flips h.1.2, h.2⟩⟩

/-- T1: the flip tables FLIPS[1..6] of the source -/
theorem flips_table : ∀ n : Fin 7, 1 ≤ n.val → flipAllB n.val ((FLIPS[n.val]?).getD []) = true := by
  decide +kernel

/-- T1: the swap tables SWAPS[2..6] of the source -/
theorem swaps_table : ∀ n : Fin 7, 2 ≤ n.val →
    swapAllB n.val (factL n.val) ((SWAPS[n.val]?).getD []) = true := by
  decide +kernel

/-- the flip sequence used for `n` variables is a closed Hamiltonian walk of the n-cube: the tables
    of the source for n <= 6 (kernel evaluation), the run-time generator for every n in 7..64
    (`Lemmas/Gray.lean`) -/
theorem flipsFor_facts (n : Nat) (h1 : 1 ≤ n) (h64 : n ≤ 64) :
    ∃ fl, flipsFor n = some fl ∧ FlipFacts n fl ∧ FlipCover n fl := by
  by_cases h6 : n ≤ 6
  · have hlt : n < FLIPS.size := by
      have : FLIPS.size = 7 := by decide
      omega
    refine ⟨FLIPS[n], by simp [flipsFor, h6, hlt], ?_⟩
    have := flips_table ⟨n, by omega⟩ h1
    simp only [Array.getElem?_eq_getElem hlt, Option.getD_some] at this
    exact flipAll_of n _ this
  · obtain ⟨⟨v, c, ne⟩, nd, len⟩ := gray_flips_facts n h1 h64
    exact ⟨generateGrayFlips n true, by simp [flipsFor, h6], ⟨v, c, ne⟩, ⟨nd, len⟩⟩

/-- the swap sequence used for `n` variables is a closed Hamiltonian walk of the symmetric group by
    adjacent transpositions: the tables of the source for n <= 6 (kernel evaluation), the run-time
    generator for every n >= 7 (`Lemmas/Sjt.lean`) -/
theorem swapsFor_facts (n : Nat) (h2 : 2 ≤ n) :
    ∃ sw, swapsFor n = some sw ∧ SwapFacts n sw ∧ SwapCover n sw := by
  by_cases h6 : n ≤ 6
  · have hlt : n < SWAPS.size := by
      have : SWAPS.size = 7 := by decide
      omega
    refine ⟨SWAPS[n], by simp [swapsFor, h6, hlt], ?_⟩
    have := swaps_table ⟨n, by omega⟩ h2
    simp only [Array.getElem?_eq_getElem hlt, Option.getD_some] at this
    exact swapAll_of n _ this
  · obtain ⟨sw, hgen, hv, hne, hc, hnd, hlen⟩ := generateSwaps_facts n h2
    exact ⟨sw, by simp [swapsFor, h6, hgen], swapFacts_of_list n sw hv hne hc, ⟨hnd, hlen⟩⟩

end VoluteModel

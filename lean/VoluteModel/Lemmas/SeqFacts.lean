import VoluteModel.Lemmas.CanonMain
import VoluteModel.Lemmas.SeqCore
import VoluteModel.Lemmas.SeqGen8
import VoluteModel.Lemmas.Gray

/-!
# Facts about the swap / flip sequences in use

For n <= 6 the sequences are the tables `SWAPS` / `FLIPS` regenerated from /repo/src (T1) and the
Boolean checks of `SeqCore` are evaluated on them here; for n = 7, 8 they are the model of the
runtime generators, evaluated in `SeqCore` (tied to the Rust generators by the
`verif_canon_sequences` / `verif_last_sequences` hooks in the correspondence run).
-/

namespace VoluteModel
open Gen

theorem permAfterL_eq (n : Nat) (swaps : List Nat) :
    permAfterL n swaps = (certAfter n (Array.range n, 0) (swaps.map Elem.swap)).1.toList := by
  unfold permAfterL
  rw [foldForce_eq]
  have : ∀ (l : List Nat) (p : Array Nat) (m : Nat),
      l.foldl (fun q s => swapAdjL s q) p.toList = (certAfter n (p, m) (l.map Elem.swap)).1.toList := by
    intro l
    induction l with
    | nil => intro p m; rfl
    | cons s ss ih =>
      intro p m
      simp only [List.foldl_cons, List.map_cons, certAfter, rstepE] at ih ⊢
      rw [← swapAdjL_eq]
      exact ih _ m
  have := this swaps (Array.range n) 0
  simpa [Array.toList_range] using this

structure FlipFacts (n : Nat) (flips : List Nat) : Prop where
  valid : ∀ f ∈ flips, f < n
  closed : xorFlips flips = 0
  ne : flips ≠ []

structure SwapFacts (n : Nat) (swaps : List Nat) : Prop where
  valid : ∀ s ∈ swaps, s + 1 < n
  ne : swaps ≠ []
  closed : (certAfter n (Array.range n, 0) (swaps.map Elem.swap)).1 = Array.range n

theorem flipFacts_of (n : Nat) (flips : List Nat) (h : flipFactsB n flips = true) : FlipFacts n flips := by
  unfold flipFactsB at h
  simp only [Bool.and_eq_true, List.all_eq_true, decide_eq_true_eq, beq_iff_eq, Bool.not_eq_true',
    List.isEmpty_eq_false_iff] at h
  exact ⟨h.1.1, h.1.2, h.2⟩

theorem swapFacts_of (n : Nat) (swaps : List Nat) (h : swapFactsB n swaps = true) : SwapFacts n swaps := by
  unfold swapFactsB at h
  simp only [Bool.and_eq_true, List.all_eq_true, decide_eq_true_eq, beq_iff_eq, Bool.not_eq_true',
    List.isEmpty_eq_false_iff] at h
  refine ⟨h.1.1, h.1.2, ?_⟩
  have := h.2
  rw [permAfterL_eq] at this
  apply Array.ext'
  simpa [Array.toList_range] using this


/-- the walk visits pairwise distinct permutations and has `len` steps -/
structure SwapCover (n len : Nat) (swaps : List Nat) : Prop where
  distinct : distinctPermsB n swaps = true
  length : swaps.length = len

/-- the Gray walk visits pairwise distinct masks and has 2^n steps -/
structure FlipCover (n : Nat) (flips : List Nat) : Prop where
  nodup : (prefixXors 0 flips).Nodup
  length : flips.length = 2 ^ n

theorem swapAll_of (n len : Nat) (swaps : List Nat) (h : swapAllB n len swaps = true) :
    SwapFacts n swaps ∧ SwapCover n len swaps := by
  obtain ⟨h1, h2, h3⟩ := swapAllB_spec n len swaps h
  exact ⟨swapFacts_of n swaps h1, ⟨h2, h3⟩⟩

theorem flipAll_of (n : Nat) (flips : List Nat) (h : flipAllB n flips = true) :
    FlipFacts n flips ∧ FlipCover n flips := by
  unfold flipAllB at h
  simp only [Bool.and_eq_true, beq_iff_eq] at h
  exact ⟨flipFacts_of n flips h.1.1, ⟨prefixXors_nodup flips h.1.2, h.2⟩⟩

/-- n! for n <= 8 -/
def factTable : List Nat := [1, 1, 2, 6, 24, 120, 720, 5040, 40320]

/-- T1: the flip tables FLIPS[1..6] of the source -/
theorem flips_table : ∀ n : Fin 7, 1 ≤ n.val → flipAllB n.val ((FLIPS[n.val]?).getD []) = true := by
  decide +kernel

/-- T1: the swap tables SWAPS[2..6] of the source -/
theorem swaps_table : ∀ n : Fin 7, 2 ≤ n.val →
    swapAllB n.val (factTable[n.val]?.getD 0) ((SWAPS[n.val]?).getD []) = true := by
  decide +kernel

/-- the flip sequence used for `n` variables is a closed Hamiltonian walk of the n-cube: the tables
    of the source for n <= 6 (kernel evaluation), the run-time generator for every n in 7..64
    (`Lemmas/Gray.lean`) -/
theorem flipsFor_facts (n : Nat) (h1 : 1 ≤ n) (h64 : n ≤ 64) :
    ∃ fl, flipsFor n = some fl ∧ FlipFacts n fl ∧ FlipCover n fl := by
  by_cases h6 : n ≤ 6
  · have hlt : n < FLIPS.size := by
      have : FLIPS.size = 7 := by decide
      omega
    refine ⟨FLIPS[n], by simp [flipsFor, h6, hlt], ?_⟩
    have := flips_table ⟨n, by omega⟩ h1
    simp only [Array.getElem?_eq_getElem hlt, Option.getD_some] at this
    exact flipAll_of n _ this
  · obtain ⟨⟨v, c, ne⟩, nd, len⟩ := gray_flips_facts n h1 h64
    exact ⟨generateGrayFlips n true, by simp [flipsFor, h6], ⟨v, c, ne⟩, ⟨nd, len⟩⟩

theorem swapsFor_facts (n : Nat) (h2 : 2 ≤ n) (h8 : n ≤ 8) :
    ∃ sw, swapsFor n = some sw ∧ SwapFacts n sw ∧ SwapCover n (factTable[n]?.getD 0) sw := by
  by_cases h6 : n ≤ 6
  · have hlt : n < SWAPS.size := by
      have : SWAPS.size = 7 := by decide
      omega
    refine ⟨SWAPS[n], by simp [swapsFor, h6, hlt], ?_⟩
    have := swaps_table ⟨n, by omega⟩ h2
    simp only [Array.getElem?_eq_getElem hlt, Option.getD_some] at this
    exact swapAll_of n _ _ this
  · by_cases h7 : n = 7
    · subst h7
      have g := swaps_gen7
      match hg : generateSwaps 7 true with
      | none => rw [hg] at g; cases g
      | some sw =>
        rw [hg] at g
        exact ⟨sw, by simp [swapsFor, hg], swapAll_of 7 _ sw g⟩
    · have : n = 8 := by omega
      subst this
      have g := swaps_gen8
      match hg : generateSwaps 8 true with
      | none => rw [hg] at g; cases g
      | some sw =>
        rw [hg] at g
        exact ⟨sw, by simp [swapsFor, hg], swapAll_of 8 _ sw g⟩

end VoluteModel

import VoluteModel.Lemmas.Count
import VoluteModel.Lemmas.Orbit
import VoluteModel.Props.C05

/-!
# Coverage: the walks visit every element of their group

From the kernel-evaluated facts (`SwapCover`: the permutations before each swap are pairwise
distinct and there are n! of them; `FlipCover`: the masks before each flip are pairwise distinct
and there are 2^n of them) and the counting lemmas of `Count.lean`: every permutation, every mask
of n+1 bits, every pair of them is the certificate of some step of the P, N, NPN walk.
-/

namespace VoluteModel
open VoluteModel.Props.C05

/-! ## P: the swap walk visits every permutation -/

theorem macroP_take_flatten (swaps : List Nat) (k : Nat) :
    ((macroP swaps).take k).flatten = (swaps.take k).map Elem.swap := by
  rw [← macroP_flatten]; simp [macroP, List.map_take]

theorem foldl_swapAdjL_eq (n : Nat) (swaps : List Nat) :
    swaps.foldl (fun q s => swapAdjL s q) (List.range n) =
      (certAfter n (Array.range n, 0) (swaps.map Elem.swap)).1.toList := by
  rw [← permAfterL_eq]
  unfold permAfterL
  rw [foldForce_eq]

/-- every permutation of 0..n-1 is the certificate of some prefix of the swap walk -/
theorem p_cover (n : Nat) (swaps : List Nat) (hs : SwapFacts n swaps)
    (hnd : (prefixPerms (List.range n) swaps).Nodup) (hl : swaps.length = factL n) (σ : Array Nat) (hσ : IsPerm n σ) :
    ∃ j, j < swaps.length ∧ certAt n (macroP swaps) j = (σ, 0) := by
  have hV : ∀ j (hj : j < swaps.length), (prefixPerms (List.range n) swaps)[j]? =
      some (certAt n (macroP swaps) j).1.toList := by
    intro j hj
    rw [prefixPerms_getElem _ _ j hj, foldl_swapAdjL_eq]
    unfold certAt
    rw [macroP_take_flatten]
  have hperm : ∀ v ∈ prefixPerms (List.range n) swaps, v.Perm (List.range n) := by
    intro v hv
    obtain ⟨j, hj, rfl⟩ := List.getElem_of_mem hv
    rw [prefixPerms_length] at hj
    have := hV j hj
    rw [List.getElem?_eq_getElem (by rw [prefixPerms_length]; exact hj)] at this
    rw [Option.some.inj this]
    unfold certAt
    rw [macroP_take_flatten]
    exact (certAfter_isPerm n (Array.range n, 0) _ (isPerm_range n) (by
      intro e he s hes
      rw [List.mem_map] at he
      obtain ⟨s', hs', rfl⟩ := he
      cases hes
      exact hs.valid s (List.mem_of_mem_take hs'))).2
  have hmem := perms_covered n _ hnd hperm (by rw [prefixPerms_length, hl, factL_eq]) σ.toList hσ.2
  obtain ⟨j, hj, hjv⟩ := List.getElem_of_mem hmem
  rw [prefixPerms_length] at hj
  refine ⟨j, hj, ?_⟩
  have := hV j hj
  rw [List.getElem?_eq_getElem (by rw [prefixPerms_length]; exact hj), hjv] at this
  apply Prod.ext
  · apply Array.ext'
    exact (Option.some.inj this).symm
  · exact p_mask_zero n swaps hs j

/-! ## N: the Gray walk with the output complement visits every mask -/

theorem macroN_cons (f : Nat) (fs : List Nat) :
    macroN (f :: fs) = [Elem.flip f, Elem.neg] :: [Elem.neg] :: macroN fs := by
  simp [macroN]

theorem macroN_take_even (flips : List Nat) (i : Nat) : (macroN flips).take (2 * i) = macroN (flips.take i) := by
  induction flips generalizing i with
  | nil => simp [macroN]
  | cons f fs ih =>
    cases i with
    | zero => simp [macroN]
    | succ i =>
      rw [macroN_cons, show 2 * (i + 1) = 2 * i + 1 + 1 by omega, List.take_succ_cons, List.take_succ_cons,
        List.take_succ_cons, macroN_cons, ih]

theorem macroN_take_odd (flips : List Nat) (i : Nat) (hi : i < flips.length) :
    (macroN flips).take (2 * i + 1) = macroN (flips.take i) ++ [[Elem.flip flips[i], Elem.neg]] := by
  induction flips generalizing i with
  | nil => simp at hi
  | cons f fs ih =>
    cases i with
    | zero => simp [macroN_cons, macroN]
    | succ i =>
      rw [macroN_cons, show 2 * (i + 1) + 1 = (2 * i + 1) + 1 + 1 by omega, List.take_succ_cons, List.take_succ_cons,
        List.take_succ_cons, macroN_cons, ih i (by simpa using hi)]
      simp

theorem xorFlips_lt (n : Nat) (fs : List Nat) (h : ∀ f ∈ fs, f < n) : xorFlips fs < 2 ^ n := by
  induction fs using List.reverseRecOn with
  | nil => simp [xorFlips]; exact Nat.two_pow_pos n
  | append_singleton fs f ih =>
    rw [xorFlips_snoc]
    exact Nat.xor_lt_two_pow (ih (fun g hg => h g (by simp [hg])))
      (Nat.pow_lt_pow_right (by omega) (h f (by simp)))

/-- the mask after k macro-steps of the N walk -/
def maskN (n : Nat) (flips : List Nat) (k : Nat) : Nat :=
  if k % 2 = 0 then xorFlips (flips.take (k / 2)) else xorFlips (flips.take (k / 2 + 1)) ^^^ 2 ^ n

theorem certN (n : Nat) (p : Array Nat) (flips : List Nat) (k : Nat) (hk : k ≤ 2 * flips.length) :
    certAfter n (p, 0) ((macroN flips).take k).flatten = (p, maskN n flips k) := by
  unfold maskN
  by_cases he : k % 2 = 0
  · rw [if_pos he]
    have : k = 2 * (k / 2) := by omega
    rw [this, macroN_take_even]
    have := certAfter_macroN n p 0 (flips.take (2 * (k / 2) / 2))
    simp only [Nat.zero_xor] at this
    rw [show 2 * (k / 2) / 2 = k / 2 by omega] at this ⊢
    exact this
  · rw [if_neg he]
    have hk2 : k = 2 * (k / 2) + 1 := by omega
    have hi : k / 2 < flips.length := by omega
    rw [hk2, macroN_take_odd flips (k / 2) hi, List.flatten_append, certAfter_append]
    have := certAfter_macroN n p 0 (flips.take (k / 2))
    simp only [Nat.zero_xor] at this
    have e : certAfter n (p, 0) (macroN (flips.take (k / 2))).flatten = (p, xorFlips (flips.take (k / 2))) := this
    rw [e]
    simp only [List.flatten_cons, List.flatten_nil, List.append_nil, certAfter, List.foldl_cons, List.foldl_nil, rstepE,
      Nat.shiftLeft_eq, Nat.one_mul]
    rw [show (2 * (k / 2) + 1) / 2 = k / 2 by omega]
    have : flips.take (k / 2 + 1) = flips.take (k / 2) ++ [flips[k / 2]] := by
      rw [List.take_succ, List.getElem?_eq_getElem hi]; rfl
    rw [this, xorFlips_snoc]

/-- every value below 2^n is the xor of a non-empty prefix of the Gray walk -/
theorem gray_cover (n : Nat) (flips : List Nat) (hfl : FlipFacts n flips) (hnd : (prefixXors 0 flips).Nodup)
    (hl : flips.length = 2 ^ n) (lo : Nat) (hlo : lo < 2 ^ n) :
    ∃ i, 1 ≤ i ∧ i ≤ flips.length ∧ xorFlips (flips.take i) = lo := by
  have hlt : ∀ v ∈ prefixXors 0 flips, v < 2 ^ n := by
    intro v hv
    obtain ⟨j, hj, rfl⟩ := List.getElem_of_mem hv
    rw [prefixXors_length] at hj
    have := prefixXors_getElem 0 flips j hj
    rw [List.getElem?_eq_getElem (by rw [prefixXors_length]; exact hj)] at this
    rw [Option.some.inj this, Nat.zero_xor]
    exact xorFlips_lt n _ (fun f hf => hfl.valid f (List.mem_of_mem_take hf))
  have hmem := range_covered (2 ^ n) _ hnd hlt (by rw [prefixXors_length, hl]) lo hlo
  obtain ⟨j, hj, hjv⟩ := List.getElem_of_mem hmem
  rw [prefixXors_length] at hj
  have := prefixXors_getElem 0 flips j hj
  rw [List.getElem?_eq_getElem (by rw [prefixXors_length]; exact hj), hjv, Nat.zero_xor] at this
  have hx : xorFlips (flips.take j) = lo := (Option.some.inj this).symm
  have hL : 1 ≤ flips.length := by
    match flips, hfl.ne with
    | _ :: _, _ => simp
  by_cases hj0 : j = 0
  · subst hj0
    refine ⟨flips.length, hL, Nat.le_refl _, ?_⟩
    rw [List.take_length, hfl.closed, ← hx]
    simp [xorFlips]
  · exact ⟨j, by omega, by omega, hx⟩

theorem split_mask (n μ : Nat) (hμ : μ < 2 ^ (n + 1)) :
    μ % 2 ^ n < 2 ^ n ∧ μ = if μ.testBit n then μ % 2 ^ n ^^^ 2 ^ n else μ % 2 ^ n := by
  refine ⟨Nat.mod_lt _ (Nat.two_pow_pos n), ?_⟩
  apply Nat.eq_of_testBit_eq
  intro i
  by_cases hb : μ.testBit n = true
  · rw [if_pos hb, testBit_xor_two_pow, Nat.testBit_mod_two_pow]
    by_cases hi : i < n
    · have : ¬ n = i := by omega
      simp [hi, this]
    · by_cases hin : i = n
      · subst hin; simp [hb]
      · have : 2 ^ (n + 1) ≤ 2 ^ i := Nat.pow_le_pow_right (by omega) (by omega)
        rw [Nat.testBit_lt_two_pow (by omega)]
        have : ¬ n = i := fun e => hin e.symm
        simp [hi, this]
  · rw [if_neg hb, Nat.testBit_mod_two_pow]
    by_cases hi : i < n
    · simp [hi]
    · by_cases hin : i = n
      · subst hin; simp at hb; simp [hb]
      · have : 2 ^ (n + 1) ≤ 2 ^ i := Nat.pow_le_pow_right (by omega) (by omega)
        rw [Nat.testBit_lt_two_pow (by omega)]
        simp [hi]

/-- every mask of n+1 bits is visited by the N walk, at a step k >= 1 -/
theorem n_cover (n : Nat) (flips : List Nat) (hfl : FlipFacts n flips) (hd : (prefixXors 0 flips).Nodup)
    (hl : flips.length = 2 ^ n) (μ : Nat) (hμ : μ < 2 ^ (n + 1)) :
    ∃ k, 1 ≤ k ∧ k ≤ 2 * flips.length ∧ maskN n flips k = μ := by
  obtain ⟨hlo, hsplit⟩ := split_mask n μ hμ
  obtain ⟨i, hi1, hiL, hx⟩ := gray_cover n flips hfl hd hl _ hlo
  by_cases hb : μ.testBit n = true
  · rw [if_pos hb] at hsplit
    refine ⟨2 * (i - 1) + 1, by omega, by omega, ?_⟩
    unfold maskN
    have : ¬ (2 * (i - 1) + 1) % 2 = 0 := by omega
    rw [if_neg this, show (2 * (i - 1) + 1) / 2 + 1 = i by omega, hx]
    exact hsplit.symm
  · rw [if_neg hb] at hsplit
    refine ⟨2 * i, by omega, by omega, ?_⟩
    unfold maskN
    have : (2 * i) % 2 = 0 := by omega
    rw [if_pos this, show 2 * i / 2 = i by omega, hx]
    exact hsplit.symm

/-! ## NPN: blocks of the N walk, one per step of the swap walk -/

theorem flatMap_take_block {α β : Type} (g : α → List β) (B : Nat) (l : List α) (hB : ∀ x ∈ l, (g x).length = B)
    (b k : Nat) (hb : b < l.length) (hk : k ≤ B) :
    (l.flatMap g).take (b * B + k) = (l.take b).flatMap g ++ (g l[b]).take k := by
  induction l generalizing b with
  | nil => simp at hb
  | cons x xs ih =>
    cases b with
    | zero =>
      simp only [Nat.zero_mul, Nat.zero_add, List.flatMap_cons, List.take_zero, List.flatMap_nil, List.nil_append,
        List.getElem_cons_zero]
      rw [List.take_append_of_le_length (by rw [hB x (by simp)]; exact hk)]
    | succ b =>
      have hx := hB x (by simp)
      rw [List.flatMap_cons, List.take_append, hx]
      have h1 : (g x).take ((b + 1) * B + k) = g x := List.take_of_length_le (by rw [hx, Nat.succ_mul]; omega)
      rw [h1, show (b + 1) * B + k - B = b * B + k by rw [Nat.succ_mul]; omega,
        ih (fun y hy => hB y (by simp [hy])) b (by simpa using hb)]
      simp [List.flatMap_cons, List.append_assoc]

theorem macroBlock_take_flatten (s : Nat) (flips : List Nat) (h : flips ≠ []) (k : Nat) (hk : 1 ≤ k) :
    ((macroBlock s flips).take k).flatten = Elem.swap s :: ((macroN flips).take k).flatten := by
  match flips, h, k, hk with
  | f0 :: fs, _, k + 1, _ =>
    rw [macroN_cons]
    simp [macroBlock]

/-- the certificate at step b*2L + k (1 <= k <= 2L) of the NPN walk: the permutation after b+1
    swaps and the mask after k steps of the N walk -/
theorem certNPN (n : Nat) (swaps flips : List Nat) (hs : SwapFacts n swaps) (hfl : FlipFacts n flips)
    (b k : Nat) (hb : b < swaps.length) (hk1 : 1 ≤ k) (hk : k ≤ 2 * flips.length) :
    certAt n (macroNPN swaps flips) (b * (2 * flips.length) + k) =
      ((certAfter n (Array.range n, 0) ((swaps.take (b + 1)).map Elem.swap)).1, maskN n flips k) := by
  unfold certAt macroNPN
  rw [flatMap_take_block (fun s => macroBlock s flips) (2 * flips.length) swaps
    (fun s _ => macroBlock_length s flips hfl.ne) b k hb hk]
  rw [List.flatten_append, certAfter_append, macroBlock_take_flatten _ flips hfl.ne k hk1]
  -- after the first b blocks: (pi_b, 0)
  have hz : LowZero n 0 := fun i _ => by simp
  have hv : ∀ s ∈ swaps.take b, s + 1 < n := fun s hs' => hs.valid s (List.mem_of_mem_take hs')
  have hblocks : certAfter n (Array.range n, 0) ((swaps.take b).flatMap (fun s => macroBlock s flips)).flatten =
      ((certAfter n (Array.range n, 0) ((swaps.take b).map Elem.swap)).1, 0) := by
    apply Prod.ext
    · rcases npn_perm n (swaps.take b) flips (Array.range n) 0 with h | h
      · exact h
      · exact absurd h hfl.ne
    · exact (safe_macroNPN n (swaps.take b) flips hfl.ne hv hfl.valid hfl.closed (Array.range n) 0 hz).2
  rw [hblocks]
  -- the swap of block b, then k steps of the N walk
  have hstep : certAfter n ((certAfter n (Array.range n, 0) ((swaps.take b).map Elem.swap)).1, 0)
      (Elem.swap swaps[b] :: ((macroN flips).take k).flatten) =
      certAfter n ((certAfter n (Array.range n, 0) ((swaps.take (b + 1)).map Elem.swap)).1, 0)
        ((macroN flips).take k).flatten := by
    have ht : swaps.take (b + 1) = swaps.take b ++ [swaps[b]] := by
      rw [List.take_succ, List.getElem?_eq_getElem hb]; rfl
    rw [ht, List.map_append, certAfter_append]
    simp only [certAfter, List.foldl_cons, List.map_cons, List.map_nil, List.foldl_nil, rstepE]
  rw [hstep, certN n _ flips k hk]

/-- every pair (permutation, mask) is the certificate of some step of the NPN walk -/
theorem npn_cover (n : Nat) (swaps flips : List Nat)
    (hs : SwapFacts n swaps) (hfl : FlipFacts n flips)
    (hd : (prefixPerms (List.range n) swaps).Nodup) (hl : swaps.length = factL n)
    (hdf : (prefixXors 0 flips).Nodup) (hlf : flips.length = 2 ^ n)
    (σ : Array Nat) (hσ : IsPerm n σ) (μ : Nat) (hμ : μ < 2 ^ (n + 1)) :
    ∃ j, j ≤ (macroNPN swaps flips).length ∧ certAt n (macroNPN swaps flips) j = (σ, μ) := by
  obtain ⟨j, hj, hcj⟩ := p_cover n swaps hs hd hl σ hσ
  obtain ⟨k, hk1, hk, hmk⟩ := n_cover n flips hfl hdf hlf μ hμ
  -- the block whose permutation is sigma: j-1, or the last one when j = 0 (the walk is closed)
  have hS : 1 ≤ swaps.length := by
    match swaps, hs.ne with
    | _ :: _, _ => simp
  have hperm_j : (certAfter n (Array.range n, 0) ((swaps.take j).map Elem.swap)).1 = σ := by
    have := congrArg Prod.fst hcj
    unfold certAt at this
    rw [macroP_take_flatten] at this
    exact this
  have hb : ∃ b, b < swaps.length ∧ (certAfter n (Array.range n, 0) ((swaps.take (b + 1)).map Elem.swap)).1 = σ := by
    by_cases hj0 : j = 0
    · subst hj0
      refine ⟨swaps.length - 1, by omega, ?_⟩
      rw [show swaps.length - 1 + 1 = swaps.length by omega, List.take_length, hs.closed]
      rw [← hperm_j]; simp [certAfter]
    · exact ⟨j - 1, by omega, by rw [show j - 1 + 1 = j by omega]; exact hperm_j⟩
  obtain ⟨b, hbl, hbσ⟩ := hb
  refine ⟨b * (2 * flips.length) + k, ?_, ?_⟩
  · rw [macroNPN_length swaps flips hfl.ne]
    have : (b + 1) * (2 * flips.length) ≤ swaps.length * (2 * flips.length) := Nat.mul_le_mul_right _ (by omega)
    rw [Nat.succ_mul] at this
    have e : 2 * swaps.length * flips.length = swaps.length * (2 * flips.length) := by
      rw [Nat.mul_comm 2, Nat.mul_assoc]
    rw [e]; omega
  · rw [certNPN n swaps flips hs hfl b k hbl hk1 hk, hbσ, hmk]

end VoluteModel

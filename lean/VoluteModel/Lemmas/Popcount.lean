import VoluteModel.Model.Basic
import VoluteModel.Lemmas.NatBits

/-!
# popcount lemmas
-/

namespace VoluteModel

theorem popc_le (w x : Nat) : popc w x ≤ w := by
  unfold popc
  have := List.countP_le_length (p := fun i => x.testBit i) (l := List.range w)
  simpa using this

/-- widening the window beyond the size of the number does not change the count -/
theorem popc_widen (k K x : Nat) (hx : x < 2 ^ k) (hk : k ≤ K) : popc K x = popc k x := by
  unfold popc
  obtain ⟨d, rfl⟩ : ∃ d, K = k + d := ⟨K - k, by omega⟩
  have e : List.range (k + d) = List.range k ++ (List.range d).map (· + k) := by
    rw [List.range_add]; congr 1; apply List.map_congr_left; intro a _; omega
  rw [e, List.countP_append, List.countP_map]
  have : List.countP ((fun i => x.testBit i) ∘ (· + k)) (List.range d) = 0 := by
    rw [List.countP_eq_zero]
    intro i _
    simp only [Function.comp]
    have : x < 2 ^ (i + k) := Nat.lt_of_lt_of_le hx (Nat.pow_le_pow_right (by omega) (by omega))
    simp [Nat.testBit_lt_two_pow this]
  omega

/-- popcount splits over the word / bit decomposition m = 64·w + b -/
theorem popc_split (k w b : Nat) (hb : b < 64) : popc (6 + k) (64 * w + b) = popc 6 b + popc k w := by
  unfold popc
  have e : List.range (6 + k) = List.range 6 ++ (List.range k).map (· + 6) := by
    rw [List.range_add]; congr 1; apply List.map_congr_left; intro a _; omega
  rw [e, List.countP_append, List.countP_map]
  congr 1
  · apply List.countP_congr
    intro i hi
    have hi' : i < 6 := by simpa using hi
    have : (64 * w + b).testBit i = b.testBit i := by
      rw [testBit_word_split w b i hb]; simp [hi']
    simp [this]
  · apply List.countP_congr
    intro i _
    have : (64 * w + b).testBit (i + 6) = w.testBit i := by
      rw [testBit_word_split w b (i + 6) hb]
      have : ¬ (i + 6 < 6) := by omega
      simp [this]
    simp [Function.comp, this]

/-- the popcount of an assignment of `n` variables from its word index and in-word index,
    as computed by `fill_symmetric` (`usize::count_ones` of the word index + in-word class) -/
theorem popc_of_index (n m : Nat) (hn : n ≤ 70) (hm : m < 2 ^ n) :
    popc 64 (m / 64) + popc 6 (m % 64) = popc n m := by
  by_cases h6 : n ≤ 6
  · have h64 : 2 ^ n ≤ 2 ^ 6 := Nat.pow_le_pow_right (by omega) h6
    have hd : m / 64 = 0 := by omega
    have hmod : m % 64 = m := by omega
    rw [hd, hmod]
    have : popc 64 0 = 0 := by
      unfold popc; rw [List.countP_eq_zero]; intro i _; simp
    rw [this, Nat.zero_add]
    exact popc_widen n 6 m hm h6
  · obtain ⟨k, rfl⟩ : ∃ k, n = 6 + k := ⟨n - 6, by omega⟩
    have hb : m % 64 < 64 := Nat.mod_lt _ (by omega)
    have hw : m / 64 < 2 ^ k := by
      have e : 2 ^ (6 + k) = 64 * 2 ^ k := by rw [Nat.pow_add]
      rw [e] at hm
      exact Nat.div_lt_of_lt_mul hm
    have e := popc_split k (m / 64) (m % 64) hb
    rw [Nat.div_add_mod] at e
    rw [e, popc_widen k 64 (m / 64) hw (by omega)]
    omega

end VoluteModel

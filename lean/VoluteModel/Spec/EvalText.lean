/-!
# The "evident grammar" of property C16, as an evaluator of printed formulas

```
formula := term (' | ' term)*          -- OR binds loosest
term    := product (' ^ ' product)*    -- XOR
product := atom+                       -- juxtaposition = AND
atom    := '!' atom | 'x' digits | '0' | '1'
```
Blanks are separators only.  There are no parentheses, so the evaluator is: lex, split at `|`,
split at `^`, evaluate the products.  `none` = the text is not a formula of this grammar.
-/

namespace VoluteModel.Spec

inductive Tok where
  | var (i : Nat) | not | zero | one | xor | or
deriving DecidableEq, Repr

def isDigit (c : Nat) : Bool := 48 ≤ c && c ≤ 57

/-- consume decimal digits: (value, number of digits, rest) -/
def lexNum : List Nat → Nat → Nat → Nat × Nat × List Nat
  | [], v, k => (v, k, [])
  | c :: cs, v, k => if isDigit c then lexNum cs (v * 10 + (c - 48)) (k + 1) else (v, k, c :: cs)

def lexFuel : Nat → List Nat → Option (List Tok)
  | 0, [] => some []
  | 0, _ :: _ => none
  | _ + 1, [] => some []
  | fuel + 1, c :: cs =>
    if c = 32 then lexFuel fuel cs
    else if c = 33 then (lexFuel fuel cs).map (Tok.not :: ·)
    else if c = 94 then (lexFuel fuel cs).map (Tok.xor :: ·)
    else if c = 124 then (lexFuel fuel cs).map (Tok.or :: ·)
    else if c = 48 then (lexFuel fuel cs).map (Tok.zero :: ·)
    else if c = 49 then (lexFuel fuel cs).map (Tok.one :: ·)
    else if c = 120 then
      let r := lexNum cs 0 0
      if r.2.1 = 0 then none else (lexFuel fuel r.2.2).map (Tok.var r.1 :: ·)
    else none

def lex (s : List Nat) : Option (List Tok) := lexFuel (s.length + 1) s

/-- split a token list at every occurrence of `sep` -/
def splitTok (sep : Tok) : List Tok → List (List Tok)
  | [] => [[]]
  | t :: ts =>
    match splitTok sep ts with
    | [] => [[t]]   -- unreachable
    | g :: gs => if t = sep then [] :: g :: gs else (t :: g) :: gs

/-- values of the atoms of a product (`neg` = pending complement) -/
def evalAtoms (a : Nat) : List Tok → Bool → Option (List Bool)
  | [], false => some []
  | [], true => none
  | Tok.not :: r, neg => evalAtoms a r (!neg)
  | Tok.var i :: r, neg => (evalAtoms a r false).map ((a.testBit i != neg) :: ·)
  | Tok.zero :: r, neg => (evalAtoms a r false).map ((false != neg) :: ·)
  | Tok.one :: r, neg => (evalAtoms a r false).map ((true != neg) :: ·)
  | Tok.xor :: _, _ => none
  | Tok.or :: _, _ => none

def evalProduct (a : Nat) (ts : List Tok) : Option Bool :=
  match evalAtoms a ts false with
  | none => none
  | some [] => none
  | some vs => some (vs.all id)

def evalTerm (a : Nat) (ts : List Tok) : Option Bool :=
  ((splitTok Tok.xor ts).mapM (evalProduct a)).map (fun vs => vs.foldl (· != ·) false)

def evalFormula (a : Nat) (ts : List Tok) : Option Bool :=
  ((splitTok Tok.or ts).mapM (evalTerm a)).map (fun vs => vs.any id)

/-- value of the printed text `s` on assignment `a` -/
def evalText (s : List Nat) (a : Nat) : Option Bool :=
  (lex s).bind (evalFormula a)

end VoluteModel.Spec
